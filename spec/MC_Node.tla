--------------------------------- MODULE MC_Node --------------------------------
EXTENDS Node, TLC
View == <<now, netHead, peers, stored, sampled, pruned, meta, bstore, sphase, subj, fetching,
          dphase, queue, ongoing, timedOut, promised, headH, batch>>
=============================================================================
