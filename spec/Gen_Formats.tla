----------------------------- MODULE Gen_Formats ----------------------------
(* one JSON line per case: ok = 1 accept / 0 reject, and the decoded value *)
EXTENDS Formats, Json
B(b) == IF b THEN 1 ELSE 0
Emit == PrintT(ToJson(
    CASE c.kind = "ns_raw" -> [kind |-> "ns_raw", fam |-> c.fam, bytes |-> c.bytes, ok |-> FromRaw(c.bytes)[1],
                               value |-> FromRaw(c.bytes)[2]]
      [] c.kind = "ns_new" -> [kind |-> "ns_new", fam |-> c.fam, v |-> c.v, id |-> c.id, ok |-> New(c.v, c.id)[1],
                               value |-> New(c.v, c.id)[2], strict |-> NewStrict(c.v, c.id)]
      [] c.kind = "ns_pair" -> [kind |-> "ns_pair", a |-> c.a, b |-> c.b, cmp |-> Cmp(c.a, c.b),
                                res_a |-> B(Reserved(c.a)), maxp |-> MaxPrimary, mins |-> MinSecondary]
      [] c.kind = "id_dec" -> LET f == DecFields(c.k, c.bytes) ok == DecOk(c.k, c.bytes) IN
                              [kind |-> "id_dec", fam |-> c.fam, k |-> c.k, bytes |-> c.bytes, ok |-> B(ok),
                               h |-> IF ok THEN f.h ELSE <<>>, r |-> IF ok THEN f.r ELSE <<>>,
                               cl |-> IF ok THEN f.cl ELSE <<>>, ns |-> IF ok THEN f.ns ELSE <<>>]
      [] c.kind = "id_cid" -> LET ok == CidOk(c.k, c.codec, c.code, c.bytes) f == DecFields(c.k, c.bytes) IN
                              [kind |-> "id_cid", fam |-> c.fam, k |-> c.k, codec |-> c.codec, code |-> c.code,
                               bytes |-> c.bytes, ok |-> B(ok),
                               h |-> IF ok THEN f.h ELSE <<>>, r |-> IF ok THEN f.r ELSE <<>>,
                               cl |-> IF ok THEN f.cl ELSE <<>>, ns |-> IF ok THEN f.ns ELSE <<>>]))
=============================================================================
