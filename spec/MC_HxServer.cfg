CONSTANT M = 1048576
CONSTANT Cap = 512
CONSTANT N = 5
CONSTANT BigMode = FALSE
CONSTANT HistMode = FALSE
CONSTANT MutMax = 4
CONSTANT Stores <- MCStores
CONSTANT Origins <- MCOrigins
CONSTANT Amounts <- MCAmounts
CONSTANT HashTargets <- MCHashTargets
CONSTANT HashLens <- MCHashLens
CONSTANT SmallAmounts <- MCSmallAmounts
INIT Init
NEXT Next
VIEW View
INVARIANTS TypeOK AnswerShape HeadClause HeightClause HashClause
CHECK_DEADLOCK FALSE
