------------------------------- MODULE Square -------------------------------
(***************************************************************************)
(* C04 / C07 (and the shared vocabulary of C05, C06, C08).                  *)
(*                                                                         *)
(* A *symbolic* extended data square.  ODS width K, EDS width W = 2K.       *)
(* All committed shares are pairwise distinct, so a share is identified by  *)
(* the coordinates it was committed at:  <<"cell", r, c>>.  A share that    *)
(* is not in the square at all (an altered payload) is <<"alt", r, c>>.     *)
(*                                                                         *)
(* Hashes are injective constructors (collision-freeness is the trusted    *)
(* base):  a leaf digest is <<"L", mode, kind, r, c>> where `mode` says     *)
(* which namespace was prefixed to the share ("own" = the first 29 bytes of *)
(* the share, "par" = PARITY_SHARE), an inner node is <<"N", l, r>>.        *)
(* The namespace range carried by a real NMT digest is a function of the    *)
(* subtree, so it adds nothing to the term.                                 *)
(*                                                                         *)
(* An NMT range proof for one leaf is (start, len, siblings).  The verifier *)
(* `NmtVerify` below is a transcription of nmt-rs 0.2.5                     *)
(* `check_range_proof` for one leaf (tree size derived from the number of   *)
(* right siblings, siblings consumed from the end, left-over nodes not      *)
(* checked), evaluated on terms.  Adversarial objects are recombinations    *)
(* of honest parts plus a few alterations; the *property layer*             *)
(* (SampleDemand / BefpDemand) decides what the code must answer, the       *)
(* *algorithmic layer* (SampleCode / BefpCode) is the design of the code    *)
(* (with the two named deviations of the pinned tree behind constants).     *)
(***************************************************************************)
EXTENDS Naturals, Sequences, FiniteSets, TLC

CONSTANTS K,          \* ODS width: 1, 2 (4 sampled)
          PosCheck,   \* TRUE: verifier compares the proof's leaf position with the requested
                      \*       coordinate (design after the fix); FALSE: pinned-tree deviation
          NsByIndex   \* TRUE: fraud-proof rebuild derives leaf namespaces from (index, n);
                      \*       FALSE: pinned-tree deviation (n < K only)

W     == 2 * K
Idx   == 0..(W - 1)
Axes  == {"row", "col"}
Other(ax) == IF ax = "row" THEN "col" ELSE "row"

(* ------------------------------------------------------------------ coordinates *)
\* coordinates of position p of line (ax, i)
RowOf(ax, i, p) == IF ax = "row" THEN i ELSE p
ColOf(ax, i, p) == IF ax = "row" THEN p ELSE i
InOds(r, c)     == r < K /\ c < K
HonestMode(r, c) == IF InOds(r, c) THEN "own" ELSE "par"

CellT(r, c) == <<"cell", r, c>>
AltT(r, c)  == <<"alt", r, c>>

(* ------------------------------------------------------------------ symbolic NMT *)
LeafH(mode, sh) == <<"L", mode, sh[1], sh[2], sh[3]>>
NodeH(l, r)     == <<"N", l, r>>

\* digest of the committed leaf at position p of line (ax, i)
LineLeaf(ax, i, p) == LeafH(HonestMode(RowOf(ax, i, p), ColOf(ax, i, p)), CellT(RowOf(ax, i, p), ColOf(ax, i, p)))

RECURSIVE SubRoot(_, _, _, _)
SubRoot(ax, i, lo, n) ==
    IF n = 1 THEN LineLeaf(ax, i, lo)
    ELSE NodeH(SubRoot(ax, i, lo, n \div 2), SubRoot(ax, i, lo + n \div 2, n \div 2))

\* tables (constant definitions: TLC evaluates them once)
RootTbl == [ax \in Axes |-> [i \in Idx |-> SubRoot(ax, i, 0, W)]]
LineRoot(ax, i) == RootTbl[ax][i]

\* siblings of the honest single-leaf proof, in-order (= positional order), as nmt-rs emits them
RECURSIVE SibsIn(_, _, _, _, _)
SibsIn(ax, i, lo, n, p) ==
    IF n = 1 THEN <<>>
    ELSE LET h == n \div 2 IN
         IF p < lo + h
         THEN SibsIn(ax, i, lo, h, p) \o <<SubRoot(ax, i, lo + h, h)>>
         ELSE <<SubRoot(ax, i, lo, h)>> \o SibsIn(ax, i, lo + h, h, p)

SibsTbl == [ax \in Axes |-> [i \in Idx |-> [p \in Idx |-> SibsIn(ax, i, 0, W, p)]]]
HonestSibs(pf) == SibsTbl[pf.ax][pf.line][pf.pos]

\* --- nmt-rs simple_merkle::utils
RECURSIVE PopCount(_)
PopCount(n) == IF n = 0 THEN 0 ELSE (n % 2) + PopCount(n \div 2)

RECURSIVE TreeSizeFrom(_, _, _)
TreeSizeFrom(idx, mask, rem) ==
    IF rem = 0 THEN idx + 1
    ELSE IF (idx \div mask) % 2 = 0 THEN TreeSizeFrom(idx + mask, mask * 2, rem - 1)
         ELSE TreeSizeFrom(idx, mask * 2, rem)

Pow2(n) == CASE n = 0 -> 1 [] n = 1 -> 2 [] n = 2 -> 4 [] n = 3 -> 8 [] n = 4 -> 16 [] n = 5 -> 32 [] OTHER -> 64
\* next_smaller_po2: the largest power of two strictly below n (n >= 2)
Po2Below(n) == CHOOSE p \in {1, 2, 4, 8, 16, 32, 64} : p < n /\ 2 * p >= n

FrontOf(s) == SubSeq(s, 1, Len(s) - 1)
LastOf(s)  == s[Len(s)]
NmtErr     == [ok |-> FALSE, h |-> <<"E">>, rest |-> <<>>]

\* check_range_proof_inner for a single leaf at index st; returns the subtree digest and the
\* unconsumed prefix of the proof
RECURSIVE NmtInner(_, _, _, _, _)
NmtInner(lf, pr, st, size, off) ==
    LET sp == Po2Below(size) IN
    IF st >= sp + off
    THEN LET rsize == size - sp
             R == IF rsize = 1 THEN [ok |-> TRUE, h |-> lf, rest |-> pr]
                  ELSE NmtInner(lf, pr, st, rsize, off + sp)
         IN IF ~R.ok THEN R
            ELSE IF Len(R.rest) = 0 THEN NmtErr
            ELSE [ok |-> TRUE, h |-> NodeH(LastOf(R.rest), R.h), rest |-> FrontOf(R.rest)]
    ELSE IF Len(pr) = 0 THEN NmtErr
         ELSE LET L == IF sp = 1 THEN [ok |-> TRUE, h |-> lf, rest |-> FrontOf(pr)]
                       ELSE NmtInner(lf, FrontOf(pr), st, sp, off)
              IN IF ~L.ok THEN L
                 ELSE [ok |-> TRUE, h |-> NodeH(L.h, LastOf(pr)), rest |-> L.rest]

\* check_range_proof(root, [leaf], sibs, start)
NmtVerify(root, lf, st, sibs) ==
    IF Len(sibs) = 0 THEN lf = root /\ st = 0
    ELSE LET nl == PopCount(st) IN
         IF Len(sibs) < nl THEN FALSE
         ELSE LET size == TreeSizeFrom(st, 1, Len(sibs) - nl)
                  R    == NmtInner(lf, sibs, st, size, 0)
              IN R.ok /\ R.h = root

\* alterations of a sibling list
SibMuts == {"none", "drop_last", "drop_first", "swap", "dup_first"}
MutSibs(m, s) ==
    CASE m = "none"       -> s
      [] m = "drop_last"  -> IF Len(s) = 0 THEN s ELSE FrontOf(s)
      [] m = "drop_first" -> IF Len(s) = 0 THEN s ELSE SubSeq(s, 2, Len(s))
      [] m = "swap"       -> IF Len(s) < 2 THEN s ELSE <<s[2], s[1]>> \o SubSeq(s, 3, Len(s))
      [] m = "dup_first"  -> IF Len(s) = 0 THEN s ELSE <<s[1]>> \o s

Proofs == [ax : Axes, line : Idx, pos : Idx]
\* the honest proof of cell (r, c) along axis ax
ProofOf(ax, r, c) == [ax |-> ax, line |-> IF ax = "row" THEN r ELSE c, pos |-> IF ax = "row" THEN c ELSE r]

(* ------------------------------------------------------------------ C04: samples *)
\* A sample case: id (requested coordinates), share, claimed proof axis `sax`, the honest proof
\* the proof part was taken from, and alterations of its range (start, len) and sibling list.
SampleHonest(c) ==
    /\ c.share = CellT(c.id.r, c.id.c)
    /\ c.proof = ProofOf(c.sax, c.id.r, c.id.c)
    /\ c.start = c.proof.pos /\ c.len = 1 /\ c.sm = "none"

\* property layer
SampleDemand(c) ==
    IF SampleHonest(c) THEN "accept"
    ELSE IF c.share = CellT(c.id.r, c.id.c) THEN "either"
    ELSE "reject"

\* algorithmic layer: Sample::decode(id, bytes) then Sample::verify(id, dah)
SampleCode(c) ==
    LET sibs == MutSibs(c.sm, HonestSibs(c.proof))
        half == Pow2(Len(sibs)) \div 2                         \* from_raw: square size from the proof
        mode == IF c.id.r < half /\ c.id.c < half THEN "own" ELSE "par"
        root == IF c.sax = "row" THEN LineRoot("row", c.id.r) ELSE LineRoot("col", c.id.c)
        exp  == IF c.sax = "row" THEN c.id.c ELSE c.id.r
    IN  /\ c.len = 1
        /\ PosCheck => c.start = exp
        /\ NmtVerify(root, LeafH(mode, c.share), c.start, sibs)

Verdict(b) == IF b THEN "accept" ELSE "reject"
Conforms(demand, got) == demand = "either" \/ demand = got

Shares == {CellT(r, c) : r \in Idx, c \in Idx} \cup {AltT(r, c) : r \in Idx, c \in Idx}
Ids    == [r : Idx, c : Idx]

(* ------------------------------------------------------------------ C07: fraud proofs *)
\* The committed square: honest extension of the ODS, then the cells in `junk` overwritten with
\* unrelated bytes (keeping the namespace prefix) *before* the roots were computed.  MDS axiom:
\* a line is a codeword iff none of its cells is junk (at most K junk cells per line).
LineCodeword(junk, ax, i) == \A p \in Idx : <<RowOf(ax, i, p), ColOf(ax, i, p)>> \notin junk

\* A fraud proof: claimed axis, claimed index, a sequence of slots; a slot is <<>> (absent) or
\* <<e>> with e = [share, mode, pax, proof, start] (mode: namespace prefixed in the NMT leaf).
Present(f)     == {s \in 1..Len(f.slots) : f.slots[s] # <<>>}
Entry(f, s)    == f.slots[s][1]
\* s is a 1-based slot of the sequence; position s-1 in the line
Committed(f, s) == CellT(RowOf(f.axis, f.index, s - 1), ColOf(f.axis, f.index, s - 1))

HonestEntry(ax, i, p, pax) ==
    LET r == RowOf(ax, i, p) c == ColOf(ax, i, p) IN
    [share |-> CellT(r, c), mode |-> HonestMode(r, c), pax |-> pax, proof |-> ProofOf(pax, r, c),
     start |-> ProofOf(pax, r, c).pos]

\* the honest prover: at least K shares of the indicated line, each proven at its own position
BefpHonest(f) ==
    /\ f.index \in Idx /\ Len(f.slots) = W
    /\ Cardinality(Present(f)) >= K
    /\ \A s \in Present(f) : Entry(f, s) = HonestEntry(f.axis, f.index, s - 1, Entry(f, s).pax)

\* property layer
BefpDemand(junk, f) ==
    IF f.index \notin Idx \/ LineCodeword(junk, f.axis, f.index) THEN "reject"
    ELSE IF BefpHonest(f) THEN "accept"
    ELSE "either"

\* algorithmic layer: BadEncodingFraudProof::validate
SlotOk(f, s) ==
    LET e    == Entry(f, s)
        p    == s - 1
        root == IF e.pax = f.axis THEN LineRoot(f.axis, f.index) ELSE LineRoot(e.pax, p)
        exp  == IF e.pax = f.axis THEN p ELSE f.index
    IN  /\ PosCheck => e.start = exp
        /\ NmtVerify(root, LeafH(e.mode, e.share), e.start, HonestSibs(e.proof))

\* Is the rebuilt-and-re-encoded line equal to the committed one?  "T"/"F"/"U" (not decided by the
\* MDS axioms: more than K shares that do not lie on one codeword).
RebuildEq(junk, f) ==
    LET P == Present(f)
        match(s) == Entry(f, s).share = Committed(f, s)
        dataSlots == 1..K
    IN  IF ~LineCodeword(junk, f.axis, f.index) THEN "F"          \* result is a codeword or a failure
        ELSE IF \A s \in P : match(s) THEN "T"
        ELSE IF dataSlots \subseteq P THEN (IF \A s \in dataSlots : match(s) THEN "T" ELSE "F")
        ELSE IF Cardinality(P) = K THEN "F"
        ELSE "U"

BefpCode(junk, f) ==
    IF f.index \notin Idx \/ Len(f.slots) # W \/ Cardinality(Present(f)) < K THEN "reject"
    ELSE IF \E s \in Present(f) : ~SlotOk(f, s) THEN "reject"
    ELSE IF ~NsByIndex /\ f.index >= K THEN "accept"   \* leaf namespaces of the rebuilt line differ
    ELSE LET eq == RebuildEq(junk, f) IN
         CASE eq = "T" -> "reject" [] eq = "F" -> "accept" [] OTHER -> "either"

\* lemma behind the fix: a slot that passes binds the share to the committed cell of that slot
SlotBinds(f) == \A s \in Present(f) : (f.index \in Idx /\ s <= W /\ SlotOk(f, s)) => Entry(f, s).share = Committed(f, s)

=============================================================================
