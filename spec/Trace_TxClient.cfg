CONSTANT Subs = {1, 2, 3, 4, 5, 6}
CONSTANT MaxSeq = 0
CONSTANT Fuel = 1000000
CONSTANT UseEst = FALSE
SPECIFICATION TSpec
INVARIANTS LockOK
POSTCONDITION Accepted
CHECK_DEADLOCK FALSE
