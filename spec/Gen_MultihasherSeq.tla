-------------------------- MODULE Gen_MultihasherSeq --------------------------
EXTENDS MultihasherSeq, Json
RECURSIVE SeqOfSet(_)
SeqOfSet(S) == IF S = {} THEN <<>> ELSE LET x == CHOOSE y \in S : TRUE IN <<x>> \o SeqOfSet(S \ {x})
\* the block table, printed once
ASSUME PrintT(ToJson([table |-> SeqOfSet({[key |-> k, b |-> BlockOfKey(k)] : k \in SeqKeys})]))
\* one line per complete behaviour
GenNext == SNext /\ (Len(hist') = L => PrintT(ToJson([init |-> init0, ops |-> hist'])))
=============================================================================
