----------------------------- MODULE MC_SyncRange ----------------------------
(* All synced sets over 1..N, every head 0..N+1 and limit 0..N+1.  The       *)
(* "state machine" is the one-step evaluation of the batch function.         *)
EXTENDS SyncRange, TLC
CONSTANT N
VARIABLES synced, head, limit, batch
vars == <<synced, head, limit, batch>>
Init == /\ synced \in SUBSET (1..N) /\ head \in 0..(N+1) /\ limit \in 0..(N+1)
        /\ batch = <<>>
Fetch == batch = <<>> /\ batch' = <<CalcRange(head, synced, limit)>>
         /\ UNCHANGED <<synced, head, limit>>
Next == Fetch
Spec == Init /\ [][Next]_vars

\* Domain of the worker: the subjective head is never below the synced top
\* (try_init inserts the network head; header-sub only raises it).
InDomain == head >= MaxSynced(synced)

BatchAllowed == batch # <<>> /\ InDomain => Allowed(head, synced, limit, batch[1])
BatchExtends == batch # <<>> /\ InDomain => Extends(synced, batch[1])
\* outside that domain the batch is still disjoint, bounded and anchored (but may exceed head)
BatchWeak    == batch # <<>> => /\ batch[1] \cap synced = {} /\ Cardinality(batch[1]) <= limit
                                /\ Contiguous(batch[1])
=============================================================================
