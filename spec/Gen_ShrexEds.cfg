CONSTANT Ks = {1, 2, 4}
CONSTANT Kinds <- AllKinds
CONSTANT AppendMax = 64
CONSTANT Dev = "none"
INIT Init
NEXT GenNext
CHECK_DEADLOCK FALSE
