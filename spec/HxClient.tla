------------------------------ MODULE HxClient ------------------------------
(***************************************************************************)
(* C31 / C32, algorithmic layer: the header-ex client handler              *)
(* (node/src/p2p/header_ex/client.rs, HeaderExClientHandler), one action   *)
(* per entry point:                                                        *)
(*   Request    on_send_request          Cancel   caller drops its receiver*)
(*   Sched      schedule_pending_requests (head fan-out to connected       *)
(*              trusted peers; pending queues Archival / Any drained to    *)
(*              connected peers of the kind, closed callers skipped)       *)
(*   Respond    on_response_received (result waits for poll) / on_failure  *)
(*              (handled at once: retry or final error)                    *)
(*   Poll       poll: decoded results -> answer / retry; head round        *)
(*              complete -> best-head rule, every waiting caller answered  *)
(*   Tick       the clock advances (> 1 s) during a head round, then poll   *)
(*   Stop       on_stop                                                    *)
(*   PeerConn / PeerDisc / PeerArch   peer tracker changes (a peer may be   *)
(*              marked archival while not connected; disconnecting clears  *)
(*              the mark, connecting keeps it)                             *)
(* A non-head request starts in queue Any with 3 tries; a failed attempt   *)
(* with tries left is re-queued, the last try goes to queue Archival.      *)
(* Every action yields the observable events of HxClientProp; the monitor  *)
(* record `mon` is advanced over them and `mon.bad = ""` is the invariant  *)
(* (the design satisfies C31/C32).                                         *)
(* Request ids: <<0, c, attempt>> for caller c, <<1, round, p>> for the    *)
(* head request of a round to peer p.                                      *)
(***************************************************************************)
EXTENDS HxClientProp, TLC

CONSTANTS Peers, GetCallers, HeadCallers, Hdrs, MaxRounds, MaxPeerEvents,
          GetOutcomes, HeadOutcomes   \* what the environment may answer (subsets of the outcome kinds)

ASSUME Callers = GetCallers \cup HeadCallers

VARIABLES conn, trusted, arch, stopped, asked, cancelled, answered,
          pending,    \* set of [c, kind, tries]              (not sent)
          inflight,   \* set of [id, c, kind, tries]          (c = 0: head request of a round)
          decoded,    \* set of [id, o, k]                    (responses waiting for poll)
          headq, headSched, round, roundIds, roundRes,
          pe,         \* peer events so far
          done,       \* quiescence observed: behaviour ends
          mon, last   \* monitor; last = [act, exp] the step just taken (for Gen)
avars == <<conn, trusted, arch, stopped, asked, cancelled, answered, pending, inflight, decoded,
           headq, headSched, round, roundIds, roundRes, pe, done>>
vars == <<avars, mon, last>>

E0(nm)          == Ev(nm, 0, 0, 0, "", "", 0)
EPeer(nm, p)    == Ev(nm, 0, 0, p, "", "", 0)
EReq(c, t)      == Ev("request", c, 0, 0, t, "", 0)
ECancel(c)      == Ev("cancel", c, 0, 0, "", "", 0)
ESent(id, p, t, c) == Ev("sent", c, id, p, t, "", 0)
EOut(id, o, k)  == Ev("outcome", 0, id, 0, "", o, k)
EAns(c, t, o, k) == Ev("answer", c, 0, 0, t, o, k)

RECURSIVE SeqOf(_)
SeqOf(S) == IF S = {} THEN <<>> ELSE LET x == CHOOSE y \in S : TRUE IN <<x>> \o SeqOf(S \ {x})
RECURSIVE Flat(_)
Flat(ss) == IF ss = <<>> THEN <<>> ELSE Head(ss) \o Flat(Tail(ss))

TypeOf(c) == IF c \in HeadCallers THEN "head" ELSE "get"
Cands(kind) == IF kind = "arch" THEN conn \cap arch ELSE conn
NextKind(r) == IF r.tries = 1 /\ r.kind = "any" THEN "arch" ELSE r.kind
NoId == <<0, 0, 0>>   \* keeps the k field of get answers comparable (ids are triples)
GetId(c, tries) == <<0, c, 4 - tries>>      \* tries left before the send: 3, 2, 1 -> attempt 1, 2, 3

\* one step: advance the monitor over the step's events, remember them for Gen
Step(act, evs) ==
    /\ mon' = MonSeq(mon, evs \o <<E0("stepend")>>)
    /\ last' = [act |-> act, evs |-> evs]

Init ==
    /\ trusted \in SUBSET Peers /\ conn \in SUBSET Peers
    /\ arch \in SUBSET Peers     \* a peer can be marked archival without (ever) being connected
    /\ stopped = FALSE /\ asked = {} /\ cancelled = {} /\ answered = {}
    /\ pending = {} /\ inflight = {} /\ decoded = {}
    /\ headq = {} /\ headSched = FALSE /\ round = 0 /\ roundIds = {} /\ roundRes = {}
    /\ pe = 0 /\ done = FALSE
    /\ mon = MonInit(conn, trusted, arch)
    /\ last = [act |-> [a |-> "init", c |-> 0, p |-> 0, o |-> "", k |-> 0, n |-> 0], evs |-> <<>>]

Act(a, c, p, o, k, n) == [a |-> a, c |-> c, p |-> p, o |-> o, k |-> k, n |-> n]

Request(c) ==
    /\ ~done /\ c \in Callers \ asked
    /\ asked' = asked \cup {c}
    /\ IF stopped
       THEN /\ answered' = answered \cup {c}
            /\ UNCHANGED <<pending, headq>>
            /\ Step(Act("request", c, 0, TypeOf(c), 0, 0), <<EReq(c, TypeOf(c)), EAns(c, "err", "cancelled", 0)>>)
       ELSE /\ UNCHANGED answered
            /\ IF c \in HeadCallers
               THEN headq' = headq \cup {c} /\ UNCHANGED pending
               ELSE pending' = pending \cup {[c |-> c, kind |-> "any", tries |-> 3]} /\ UNCHANGED headq
            /\ Step(Act("request", c, 0, TypeOf(c), 0, 0), <<EReq(c, TypeOf(c))>>)
    /\ UNCHANGED <<conn, trusted, arch, stopped, cancelled, inflight, decoded, headSched, round, roundIds, roundRes, pe, done>>

Cancel(c) ==
    /\ ~done /\ c \in asked \ (answered \cup cancelled)
    /\ cancelled' = cancelled \cup {c}
    /\ Step(Act("cancel", c, 0, "", 0, 0), <<ECancel(c)>>)
    /\ UNCHANGED <<conn, trusted, arch, stopped, asked, answered, pending, inflight, decoded, headq, headSched,
                   round, roundIds, roundRes, pe, done>>

Sched ==
    /\ ~done
    /\ LET doHead     == headq # {} /\ ~headSched
           hq1        == IF doHead THEN headq \ cancelled ELSE headq
           T          == conn \cap trusted
           startRound == doHead /\ hq1 # {} /\ T # {}
           hsends     == IF startRound THEN {[id |-> <<1, round + 1, p>>, p |-> p] : p \in T} ELSE {}
           drainK     == {k \in {"any", "arch"} : Cands(k) # {}}
           drained    == {r \in pending : r.kind \in drainK}
           tosend     == {r \in drained : r.c \notin cancelled}
       IN
       /\ headq' = hq1
       /\ headSched' = (headSched \/ startRound)
       /\ round' = IF startRound THEN round + 1 ELSE round
       /\ roundIds' = IF startRound THEN {x.id : x \in hsends} ELSE roundIds
       /\ roundRes' = IF startRound THEN {} ELSE roundRes
       /\ pending' = pending \ drained
       /\ inflight' = inflight \cup {[id |-> x.id, c |-> 0, kind |-> "trusted", tries |-> 0] : x \in hsends}
                               \cup {[id |-> GetId(r.c, r.tries), c |-> r.c, kind |-> r.kind, tries |-> r.tries - 1] : r \in tosend}
       \* which peer of the kind gets a pending request is the handler's (random) choice
       /\ \E f \in [tosend -> Peers] :
            /\ \A r \in tosend : f[r] \in Cands(r.kind)
            /\ Step(Act("sched", 0, 0, "", 0, 0),
                    <<E0("sched")>> \o SeqOf({ESent(x.id, x.p, "head", 0) : x \in hsends})
                                    \o SeqOf({ESent(GetId(r.c, r.tries), f[r], "get", r.c) : r \in tosend}))
    /\ UNCHANGED <<conn, trusted, arch, stopped, asked, cancelled, answered, decoded, pe, done>>

\* the environment answers an in-flight request
Respond(r, o, k) ==
    /\ ~done /\ r \in inflight /\ ~\E d \in decoded : d.id = r.id
    /\ IF r.c # 0
       THEN /\ o \in GetOutcomes /\ k = 0
       ELSE /\ o \in HeadOutcomes /\ (IF o = "hdr" THEN k \in Hdrs ELSE k = 0)
    /\ IF o \notin FailKinds
       THEN /\ decoded' = decoded \cup {[id |-> r.id, o |-> o, k |-> k]}
            /\ UNCHANGED <<inflight, pending, answered, roundRes>>
            /\ Step(Act("respond", r.c, (IF r.c = 0 THEN r.id[3] ELSE 0), o, k, (IF r.c = 0 THEN 0 ELSE r.id[3])),
                    <<EOut(r.id, o, k)>>)
       ELSE \* on_failure: handled immediately
            /\ inflight' = inflight \ {r}
            /\ UNCHANGED decoded
            /\ IF r.c = 0
               THEN /\ roundRes' = roundRes \cup {<<r.id, 0>>}
                    /\ UNCHANGED <<pending, answered>>
                    /\ Step(Act("respond", 0, r.id[3], o, 0, 0), <<EOut(r.id, o, 0)>>)
               ELSE /\ UNCHANGED roundRes
                    /\ IF r.tries > 0 /\ r.c \notin cancelled
                       THEN /\ pending' = pending \cup {[c |-> r.c, kind |-> NextKind(r), tries |-> r.tries]}
                            /\ UNCHANGED answered
                            /\ Step(Act("respond", r.c, 0, o, 0, r.id[3]), <<EOut(r.id, o, 0)>>)
                       ELSE /\ UNCHANGED pending
                            /\ IF r.c \in cancelled
                               THEN UNCHANGED answered /\ Step(Act("respond", r.c, 0, o, 0, r.id[3]), <<EOut(r.id, o, 0)>>)
                               ELSE /\ answered' = answered \cup {r.c}
                                    /\ Step(Act("respond", r.c, 0, o, 0, r.id[3]),
                                            <<EOut(r.id, o, 0), EAns(r.c, "err", "failure", 0)>>)
    /\ UNCHANGED <<conn, trusted, arch, stopped, asked, cancelled, headq, headSched, round, roundIds, pe, done>>

\* poll: every decoded result is handled; a complete head round is resolved
PollStep(name, needWork) ==
    /\ ~done
    /\ LET D      == {d \in decoded : \E r \in inflight : r.id = d.id}
           RecOf(d) == CHOOSE r \in inflight : r.id = d.id
           getD   == {d \in D : RecOf(d).c # 0}
           headD  == {d \in D : RecOf(d).c = 0}
           retry  == {d \in getD : d.o # "valid" /\ RecOf(d).tries > 0 /\ RecOf(d).c \notin cancelled}
           final  == getD \ retry
           ansGet == {d \in final : RecOf(d).c \notin cancelled}
           rres   == roundRes \cup {<<d.id, IF d.o = "hdr" THEN d.k ELSE 0>> : d \in headD}
           complete == headSched /\ \A id \in roundIds : \E x \in rres : x[1] = id
           reports  == {[id |-> x[1], k |-> x[2]] : x \in {y \in rres : y[2] # 0}}
       IN
       /\ (needWork => (decoded # {} \/ complete))
       /\ decoded' = {}
       /\ inflight' = {r \in inflight : ~\E d \in D : d.id = r.id}
       /\ pending' = pending \cup {[c |-> RecOf(d).c, kind |-> NextKind(RecOf(d)), tries |-> RecOf(d).tries] : d \in retry}
       /\ roundRes' = rres
       /\ IF complete /\ reports # {}
          THEN \E best \in Best(reports) :
                 /\ headSched' = FALSE /\ headq' = {}
                 /\ answered' = answered \cup {RecOf(d).c : d \in ansGet} \cup (headq \ cancelled)
                 /\ Step(Act(name, 0, 0, "", 0, 0),
                         <<E0("poll")>>
                         \o SeqOf({EAns(RecOf(d).c, IF d.o = "valid" THEN "ok" ELSE "err",
                                        IF d.o = "valid" THEN "" ELSE ErrKind(d.o),
                                        IF d.o = "valid" THEN d.id ELSE NoId) : d \in ansGet})
                         \o SeqOf({EAns(c, "ok", "", best) : c \in headq \ cancelled}))
          ELSE /\ headSched' = (headSched /\ ~complete)
               /\ UNCHANGED headq
               /\ answered' = answered \cup {RecOf(d).c : d \in ansGet}
               /\ Step(Act(name, 0, 0, "", 0, 0),
                       <<E0("poll")>>
                       \o SeqOf({EAns(RecOf(d).c, IF d.o = "valid" THEN "ok" ELSE "err",
                                      IF d.o = "valid" THEN "" ELSE ErrKind(d.o),
                                      IF d.o = "valid" THEN d.id ELSE NoId) : d \in ansGet}))
    /\ UNCHANGED <<conn, trusted, arch, stopped, asked, cancelled, round, roundIds, pe, done>>

Poll == PollStep("poll", TRUE)
\* The (virtual) clock advances by more than a second while a head round is in progress, then the
\* handler is polled.  Time is not part of the statements: the step is a poll, nothing else.
Tick == headSched /\ PollStep("tick", FALSE)

Stop ==
    /\ ~done /\ ~stopped
    /\ stopped' = TRUE
    /\ LET W == asked \ (answered \cup cancelled) IN
       /\ answered' = answered \cup W
       /\ Step(Act("stop", 0, 0, "", 0, 0), <<E0("stop")>> \o SeqOf({EAns(c, "err", "cancelled", 0) : c \in W}))
    /\ pending' = {} /\ inflight' = {} /\ decoded' = {} /\ headq' = {} /\ headSched' = FALSE
    /\ roundIds' = {} /\ roundRes' = {}
    /\ UNCHANGED <<conn, trusted, arch, asked, cancelled, round, pe, done>>

PeerConn(p) ==
    /\ ~done /\ pe < MaxPeerEvents /\ p \in Peers \ conn
    /\ conn' = conn \cup {p} /\ pe' = pe + 1
    /\ Step(Act("conn", 0, p, "", 0, 0), <<EPeer("conn", p)>>)
    /\ UNCHANGED <<trusted, arch, stopped, asked, cancelled, answered, pending, inflight, decoded, headq, headSched,
                   round, roundIds, roundRes, done>>
PeerDisc(p) ==
    /\ ~done /\ pe < MaxPeerEvents /\ p \in conn
    /\ conn' = conn \ {p} /\ arch' = arch \ {p} /\ pe' = pe + 1
    /\ Step(Act("disc", 0, p, "", 0, 0), <<EPeer("disc", p)>>)
    /\ UNCHANGED <<trusted, stopped, asked, cancelled, answered, pending, inflight, decoded, headq, headSched,
                   round, roundIds, roundRes, done>>
PeerArch(p) ==
    /\ ~done /\ pe < MaxPeerEvents /\ p \in Peers \ arch    \* connected or not (mark_as_archival)
    /\ arch' = arch \cup {p} /\ pe' = pe + 1
    /\ Step(Act("arch", 0, p, "", 0, 0), <<EPeer("arch", p)>>)
    /\ UNCHANGED <<conn, trusted, stopped, asked, cancelled, answered, pending, inflight, decoded, headq, headSched,
                   round, roundIds, roundRes, done>>

\* nothing in flight, everything polled, and a schedule round would send nothing
SchedIdle ==
    /\ \A r \in pending : r.c \in cancelled \/ Cands(r.kind) = {}
    /\ ~(headq \ cancelled # {} /\ ~headSched /\ conn \cap trusted # {})
Quiesce ==
    /\ ~done /\ inflight = {} /\ decoded = {} /\ SchedIdle
    /\ done' = TRUE
    /\ mon' = Mon(mon, E0("quiescent"))
    /\ last' = [act |-> Act("quiescent", 0, 0, "", 0, 0), evs |-> <<>>]
    /\ UNCHANGED <<conn, trusted, arch, stopped, asked, cancelled, answered, pending, inflight, decoded, headq,
                   headSched, round, roundIds, roundRes, pe>>

Next ==
    \/ \E c \in Callers : Request(c) \/ Cancel(c)
    \/ Sched \/ Poll \/ Tick \/ Stop \/ Quiesce
    \/ \E r \in inflight : \E o \in GetOutcomes \cup HeadOutcomes :
           \E k \in Hdrs \cup {0} : Respond(r, o, k)
    \/ \E p \in Peers : PeerConn(p) \/ PeerDisc(p) \/ PeerArch(p)
Spec == Init /\ [][Next]_vars

(* ---- the design satisfies the properties ---- *)
MonitorOK == mon.bad = ""
TypeOK ==
    /\ answered \subseteq asked /\ cancelled \subseteq asked
    /\ \A r \in pending : r.tries \in 1..3 /\ (r.kind = "arch" <=> r.tries = 1)
    /\ \A r \in inflight : r.c # 0 => r.tries \in 0..2
\* the monitor's view of the environment is the model's
MonitorInSync ==
    /\ mon.conn = conn /\ mon.arch = arch /\ mon.trusted = trusted /\ mon.stopped = stopped
    /\ mon.bad = "" => (mon.answered = answered /\ mon.cancelled = cancelled)
\* a request is never both waiting to be sent and in flight, and never twice in either
OnePlace ==
    \A c \in GetCallers :
        Cardinality({r \in pending : r.c = c}) + Cardinality({r \in inflight : r.c = c}) <= 1
RoundBound == round <= MaxRounds
=============================================================================
