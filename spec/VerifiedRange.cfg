CONSTANTS
  M = 1000000
  Heights = {1, 2, 5, 60}
  SmallAmounts = {0, 1, 2, 7, 8, 9, 63, 64, 65, 100, 511, 512, 513, 600}
  TopOffsets = {0, 1, 2, 4, 5, 6, 59, 60, 61, 1000}
  ChainLen = 700
SPECIFICATION Spec
INVARIANT SessionRangeOk
CHECK_DEADLOCK FALSE
