----------------------------- MODULE TxPipeline -----------------------------
(***************************************************************************)
(* C43, pipelined submissions against an HONEST node.                      *)
(* The client of TxClient.tla is composed with a node that keeps the       *)
(* account's committed sequence `nseq` and a mempool `pool`:               *)
(*   CheckTx   a broadcast signed with q is accepted iff q = nseq +        *)
(*             Len(pool), otherwise answered "mismatch, expected ...";     *)
(*   Block(k)  the pool is executed in order: the transactions before the  *)
(*             k-th commit, the k-th is rejected for a reason other than   *)
(*             its sequence (fee, funds, ...) and does not consume its     *)
(*             sequence, all later ones are rejected with a sequence       *)
(*             error; k = 0: all commit;                                   *)
(*   status    the node reports what it decided.                           *)
(* Up to Cardinality(Subs) submissions are in flight; verdicts arrive for  *)
(* any of them in any order.  Discipline of the family: no NEW transaction *)
(* is signed while a decided rejection has not been reported to the client *)
(* yet and the rejected submission has not returned, and no block is made  *)
(* while a transaction is being prepared (otherwise the roll-back races    *)
(* with the resynchronisation of the new transaction, also in the code as  *)
(* it is).                                                                 *)
(* Property (clause E): whenever nothing is in flight, the sequence the    *)
(* next transaction will be signed with is the one the node expects.       *)
(***************************************************************************)
EXTENDS TxClient

VARIABLES nseq,      \* sequence the state machine expects next (committed)
          pool,      \* mempool: sequence of <<tx, q>>
          verdict    \* verdict[tx] \in {"committed", "rej-other", "rej-seq"} once decided

nvars == <<nseq, pool, verdict>>
hvars == <<vars, nvars>>

HInit(q0) == AInit /\ nseq = q0 /\ pool = <<>> /\ verdict = <<>>

InPool(tx) == \E i \in 1..Len(pool) : pool[i][1] = tx
Decided(tx) == tx \in DOMAIN verdict
\* a rejection the client has not been told yet
UnreportedRejection ==
    \E s \in Subs : \/ pc[s] = "conf" /\ Decided(mytx[s][1]) /\ verdict[mytx[s][1]] # "committed"
                    \/ pc[s] \in {"rbqueue", "rbwait"}          \* told, but the submission has not dealt with it yet

HBegin(s) == ~UnreportedRejection /\ Begin(s) /\ UNCHANGED nvars
HAcct(s)  == Acct(s, nseq) /\ UNCHANGED nvars

HBcast(s) ==
    /\ pc[s] = "sign" /\ lock = s
    /\ LET exp == nseq + Len(pool) IN
       IF seq = exp
       THEN Bcast(s, "ok", 0) /\ pool' = Append(pool, <<Tx(s, seq), seq>>)
       ELSE Bcast(s, "mismatch", exp) /\ UNCHANGED pool
    /\ UNCHANGED <<nseq, verdict>>

Block(k) ==
    /\ pool # <<>> /\ k \in 0..Len(pool)
    \* no transaction is being prepared (signed, on its way to the node) while the block is made
    /\ \A s \in Subs : pc[s] \notin {"acct", "queue", "wait", "est", "sign"}
    /\ verdict' = [t \in DOMAIN verdict \cup {pool[i][1] : i \in 1..Len(pool)} |->
                     IF t \in DOMAIN verdict THEN verdict[t]
                     ELSE LET i == CHOOSE j \in 1..Len(pool) : pool[j][1] = t
                          IN IF k = 0 \/ i < k THEN "committed" ELSE IF i = k THEN "rej-other" ELSE "rej-seq"]
    /\ nseq' = nseq + (IF k = 0 THEN Len(pool) ELSE k - 1)
    /\ pool' = <<>>
    /\ UNCHANGED vars

HStatus(s) ==
    /\ pc[s] = "conf"
    /\ LET tx == mytx[s][1] IN
       IF ~Decided(tx) THEN Status(s, "pending", "")
       ELSE IF verdict[tx] = "committed" THEN Status(s, "committed", "")
       ELSE IF verdict[tx] = "rej-other" THEN Status(s, "rejected", "other")
       ELSE Status(s, "rejected", "seq")
    /\ UNCHANGED nvars

HNext == \/ Internal /\ UNCHANGED nvars
         \/ \E s \in Subs : HBegin(s) \/ HAcct(s) \/ HBcast(s) \/ HStatus(s) \/ (Return(s) /\ UNCHANGED nvars)
         \/ \E k \in 0..Len(pool) : Block(k)

\* ---- clause E -----------------------------------------------------------
Quiet == /\ \A s \in Subs : pc[s] \in {"idle", "done"}
         /\ pool = <<>> /\ lock = 0 /\ lockq = <<>> /\ seq # None
QuietAgree == Quiet => seq = nseq
\* the honest node never has to answer "mismatch" in this family: every transaction is signed with the expected sequence
SignsExpected == \A s \in Subs : (pc[s] = "sign" /\ lock = s) => seq = nseq + Len(pool)
=============================================================================
