CONSTANT Peers = {1, 2, 3, 4, 5, 6}
CONSTANT Up = {1, 2, 3, 4, 5, 6, 7, 8, 9, 10, 11, 12, 13, 14, 15, 16, 17, 18, 19, 20}
CONSTANT Down = {11, 12, 13, 14, 15}
CONSTANT Window = 10
CONSTANT MaxEv = 100000
CONSTANT DupValidated = "block"
CONSTANT XHash <- XH
SPECIFICATION TSpec
INVARIANTS OldDropped NoPanic
PROPERTIES OfferedAnnounced OwedBlocked
POSTCONDITION Accepted
CHECK_DEADLOCK FALSE
