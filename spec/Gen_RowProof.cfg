CONSTANT W = 4
CONSTANT MaxLists = 4
INIT Init
NEXT Next
INVARIANTS Emit
