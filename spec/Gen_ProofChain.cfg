CONSTANT AsIsEmptyValue = TRUE
INIT Init
NEXT Next
INVARIANTS Emit
CHECK_DEADLOCK FALSE
