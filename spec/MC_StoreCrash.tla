----------------------------- MODULE MC_StoreCrash -----------------------------
(* Small scope: heights 1..N, honest chain A, a fork B from height K, a header   *)
(* T advertising an already used hash; batches of length <= 2; one CID.          *)
EXTENDS StoreCrash
CONSTANTS N, K, MaxCrashes

VARIABLE crashes

Hd(id, h, tag, parent) == [id |-> id, h |-> h, tag |-> tag, parent |-> parent, vs |-> 1, nvs |-> 1, t |-> h, cid |-> 1]
A(h) == Hd(h, h, h, h - 1)
B(h) == Hd(10 + h, h, 10 + h, IF h = K THEN K - 1 ELSE 10 + h - 1)
T(h) == Hd(20 + h, h, 1, h - 1)
Hdrs == {A(h) : h \in 1..N} \cup {B(h) : h \in K..N} \cup {T(h) : h \in 2..N}
Batches == {<<x>> : x \in Hdrs} \cup {<<x, y>> : x, y \in Hdrs}

BeginOp == \/ \E b \in Batches : Begin(Insert(b), Stages(b))
           \/ \E h \in 1..N : Begin(RemoveHeight(h) \/ MarkSampled(h) \/ UpdateMeta(h, {1}), <<>>)

MCInit == CInit /\ crashes = 0
MCNext == \/ BeginOp /\ UNCHANGED crashes
          \/ Step /\ UNCHANGED crashes
          \/ Ack /\ UNCHANGED crashes
          \/ /\ crashes < MaxCrashes /\ crashes' = crashes + 1
             /\ \E KK \in SUBSET (DOMAIN cache) : Crash(KK)

\* res is an observation; the rest is state
View == <<svars, cvars, crashes>>
=============================================================================
