CONSTANT NP = 2
CONSTANT NC = 2
CONSTANT NT = 2
CONSTANT Kinds = {0, 2, 3}
INIT Init
NEXT GenNext
VIEW View
CHECK_DEADLOCK FALSE
