CONSTANT NP = 2
CONSTANT NC = 2
CONSTANT NT = 2
CONSTANT Kinds = {0, 2, 3}
CONSTANT GcMode = "keep"
INIT Init
NEXT GenNext
VIEW View
CHECK_DEADLOCK FALSE
