------------------------------- MODULE Gen_Daser -------------------------------
(* spec -> impl for C33 / C34: TLC (simulation) walks Daser.tla and prints the     *)
(* ENVIRONMENT's part of each walk (store inserts and removals, peers, pruner       *)
(* messages, sample answers, time-outs, malformed answers) as one JSON line.  The   *)
(* harness performs those steps on the real Daser worker, which takes its own steps *)
(* (Schedule, Complete) by itself; the recorded run is then judged by Trace_Daser.  *)
(* The worker is eager, as in the harness (which acts at quiescent points only):    *)
(* environment steps are taken only when no worker step is enabled.                 *)
EXTENDS Daser, TLC, Json
CONSTANTS N, D, Widths
VARIABLES hist, ever
gvars == <<stored, sampledS, meta, width, now, peers, phase, queue, ongoing, timedOut, promised, headH,
           hiPrunable, numPrunable, blk, obs, hist, ever>>

EnvStep(a) == hist' = Append(hist, a)
Own == UNCHANGED hist

Done(h) == h \in ongoing /\ blk[h].ok \cup blk[h].to = blk[h].shares
WorkerBusy == (\E h \in 1..N : Schedulable(h)) \/ (\E h \in 1..N : Done(h))

\* new heads and back-filled headers (as the syncer inserts them); the width is a function of the height
InsertCands == IF ever = {} THEN {N - 3, N - 1}
               ELSE {h \in {MaxOf(ever) + 1, MinOf(ever) - 1} : h \in 1..N}
WidthOf(h) == IF h % 3 = 0 THEN 4 ELSE 2
\* the pruner asks about blocks in progress, and about the oldest / newest stored one
WantCands == (ongoing \cap stored) \cup (IF stored = {} THEN {} ELSE {MinOf(stored), MaxOf(stored)})

Count(a) == Cardinality({i \in DOMAIN hist : hist[i].a = a})

\* every unanswered sample of every ongoing block times out (virtual time passes)
TimeoutAll ==
    /\ ongoing # {} /\ \E h \in ongoing : blk[h].ok # blk[h].shares
    /\ blk' = [h \in DOMAIN blk |-> [blk[h] EXCEPT !.to = blk[h].shares \ blk[h].ok]]
    /\ obs' = NoObs
    /\ UNCHANGED <<stored, sampledS, meta, width, now, peers, phase, queue, ongoing, timedOut, promised, headH, hiPrunable, numPrunable>>

GInit == /\ stored = {} /\ sampledS = {} /\ meta = <<>> /\ width = <<>> /\ now = N
         /\ peers = 0 /\ phase = "connecting"
         /\ queue = {} /\ ongoing = {} /\ timedOut = {} /\ promised = {} /\ headH = 0
         /\ hiPrunable = 0 /\ numPrunable = 0 /\ blk = <<>> /\ obs = NoObs
         /\ hist = <<>> /\ ever = {}
\* second initial state: a peer is already there
GInitC == /\ stored = {} /\ sampledS = {} /\ meta = <<>> /\ width = <<>> /\ now = N
          /\ peers = 1 /\ phase = "connected"
          /\ queue = {} /\ ongoing = {} /\ timedOut = {} /\ promised = {} /\ headH = 0
          /\ hiPrunable = 0 /\ numPrunable = 0 /\ blk = <<>> /\ obs = NoObs
          /\ hist = <<[a |-> "connect", h |-> 0, v |-> 0]>> /\ ever = {}
GInit2 == GInit \/ GInitC

GNext ==
    /\ Len(hist) < D
    /\ \/ /\ WorkerBusy /\ UNCHANGED ever
          /\ \/ \E h \in 1..N : Schedule(h, AllShares(width[h])) /\ Own
             \/ \E h \in 1..N : Complete(h) /\ Own
       \/ /\ ~WorkerBusy
          /\ \/ \E h \in InsertCands : \E w \in {WidthOf(h)} :
                    Insert(h, w) /\ ever' = ever \cup {h} /\ EnvStep([a |-> "insert", h |-> h, v |-> w])
             \/ \E h \in 1..N : RemoveH(h) /\ UNCHANGED ever /\ EnvStep([a |-> "remove", h |-> h, v |-> 0])
             \/ Connect /\ UNCHANGED ever /\ EnvStep([a |-> "connect", h |-> 0, v |-> 0])
             \/ Count("disconnect") < 2 /\ Disconnect /\ UNCHANGED ever /\ EnvStep([a |-> "disconnect", h |-> 0, v |-> 0])
             \/ \E h \in WantCands : Count("want") < 5 /\ WantToPrune(h) /\ UNCHANGED ever /\ EnvStep([a |-> "want", h |-> h, v |-> 0])
             \/ \E v \in {0, N} : Count("hp") < 2 /\ v # hiPrunable /\ SetHiPrunable(v) /\ UNCHANGED ever /\ EnvStep([a |-> "hp", h |-> 0, v |-> v])
             \/ \E v \in {IF numPrunable = Threshold THEN Threshold - 1 ELSE Threshold} : Count("np") < 2 /\ /\ SetNumPrunable(v) /\ UNCHANGED ever /\ EnvStep([a |-> "np", h |-> 0, v |-> v])
             \/ \E h \in ongoing : blk[h].shares \ (blk[h].ok \cup blk[h].to) # {} /\
                    LET s == CHOOSE x \in blk[h].shares \ (blk[h].ok \cup blk[h].to) : TRUE IN
                    ShareOk(h, s) /\ UNCHANGED ever /\ EnvStep([a |-> "ans", h |-> h, v |-> 0])
             \* the whole block answered at once (keeps walks short enough to complete blocks)
             \/ \E h \in ongoing : /\ blk[h].to = {} /\ blk[h].ok # blk[h].shares
                                   /\ blk' = [blk EXCEPT ![h].ok = blk[h].shares] /\ obs' = NoObs
                                   /\ UNCHANGED <<stored, sampledS, meta, width, now, peers, phase, queue, ongoing, timedOut, promised, headH, hiPrunable, numPrunable, ever>>
                                   /\ EnvStep([a |-> "ansall", h |-> h, v |-> 0])
             \/ TimeoutAll /\ UNCHANGED ever /\ EnvStep([a |-> "timeout", h |-> 0, v |-> 0])
Emit == Len(hist) = D => PrintT(ToJson([ops |-> hist]))
=============================================================================
