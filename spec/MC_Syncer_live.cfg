CONSTANTS
  N = 5
  Batch = 2
  WSamp = 3
  WPrune = 4
  AsIsDeviation = FALSE
  EnablePrune = FALSE
  EnableForeign = FALSE
  SlowThr = 1000000
SPECIFICATION LiveSpec
INVARIANTS TypeOK StoreOnHonestChain
PROPERTY EventuallySynced
CHECK_DEADLOCK FALSE
