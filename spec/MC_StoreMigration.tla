--------------------------- MODULE MC_StoreMigration ---------------------------
(* Exhaustive: every schema version 1..5 with every stored / sampled table over  *)
(* heights 1..N (v1 has no sampled ranges; sampled need not be within stored -   *)
(* the migration must not care), pruned either empty or everything not stored;   *)
(* newer-version files with all, some, or none of today's tables.                *)
EXTENDS StoreMigration, TLC

Cases == {<<v, st, sa, pr, ap, lay>> \in Versions \X (SUBSET U) \X (SUBSET U) \X BOOLEAN \X BOOLEAN \X Layouts :
             /\ (v = 1 => sa = {} /\ ~pr /\ ap)
             /\ (v = 2 => ~pr /\ (~ap => sa = {}))
             /\ (v >= 3 => ap)
             /\ (v <= 3 => lay = "full")                       \* older files were written by the known code
             /\ (lay = "part" => ~pr)
             /\ (lay = "min" => st = {} /\ sa = {} /\ ~pr)}
DbOf(c) == MkDb(c[1], c[2], c[3], IF c[4] THEN U \ c[2] ELSE {}, c[5], c[6])

MCInit == /\ \E c \in Cases : db = DbOf(c) /\ db0 = DbOf(c)
          /\ res = "none" /\ opens = 0
=============================================================================
