--------------------------- MODULE MC_StoreMigration ---------------------------
(* Exhaustive: every schema version 1..5 with every stored / sampled table over  *)
(* heights 1..N (v1 has no sampled ranges; sampled need not be within stored -   *)
(* the migration must not care), pruned either empty or everything not stored.   *)
EXTENDS StoreMigration, TLC

Cases == {<<v, st, sa, pr, ap>> \in Versions \X (SUBSET U) \X (SUBSET U) \X BOOLEAN \X BOOLEAN :
             /\ (v = 1 => sa = {} /\ ~pr /\ ap)
             /\ (v = 2 => ~pr /\ (~ap => sa = {}))
             /\ (v >= 3 => ap)}
DbOf(c) == MkDb(c[1], c[2], c[3], IF c[4] THEN U \ c[2] ELSE {}, c[5])

MCInit == /\ \E c \in Cases : db = DbOf(c) /\ db0 = DbOf(c)
          /\ res = "none" /\ opens = 0
=============================================================================
