---------------------------- MODULE MC_WindowSearch --------------------------
(* The pruner's use of the search as a state machine: the cutoff only moves *)
(* forward, stored heights are removed (pruning) or appended at the top     *)
(* (syncing), and each search feeds its answer to the next one.             *)
EXTENDS WindowSearch, TLC
CONSTANT N
VARIABLES S, c, prev
vars == <<S, c, prev>>
Init == S \in SUBSET (1..N) /\ c \in 0..(2*N+2) /\ prev = 0
Advance == \E c2 \in (c+1)..(2*N+2) : c' = c2 /\ UNCHANGED <<S, prev>>
RemoveH == \E h \in S : S' = S \ {h} /\ UNCHANGED <<c, prev>>
Search  == \E r \in AllowedAns(S, c) : prev' = r /\ UNCHANGED <<S, c>>
Next == Advance \/ RemoveH \/ Search
Spec == Init /\ [][Next]_vars

\* the relation is satisfiable, and the canonical answer always satisfies it
AnswerExists == AllowedAns(S, c) # {} /\ Canonical(S, c) \in AllowedAns(S, c)
\* without ties the answer is unique
UniqueNoTie == (c % 2 = 1) => AllowedAns(S, c) = {Canonical(S, c)}
\* the answer fed back is always an admissible previous answer later on
PrevAdmissible == prev \in AdmissiblePrev(S, c, N)
\* monotone: allowed answers never move down when the cutoff advances (what the cache relies on)
Monotone == \A c2 \in c..(2*N+2) : Canonical(S, c) <= Canonical(S, c2)
=============================================================================
