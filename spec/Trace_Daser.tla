------------------------------- MODULE Trace_Daser -----------------------------
(* impl -> spec for C33 / C34: a recorded run of the real Daser worker          *)
(* (harness/crates/h-node/src/daser.rs).  Events, in the order they happened:    *)
(*   insert(h,w) premark(h) remove(h) connect disconnect                          *)
(*   want(h,granted) hp(v) np(v)                 pruner messages                  *)
(*   meta(h,shares)    store.update_sampling_metadata call  = Schedule            *)
(*   req(h,r,c)        GetShwapCid reached the (mock) P2p worker                   *)
(*   started(h,w,shares)  SamplingStarted event                                   *)
(*   ans(h,r,c)        the harness served the sample     = ShareOk                *)
(*   share_to(h,r,c)   ShareSamplingResult{timed_out}    = ShareTimeout           *)
(*   mark(h)           store.mark_as_sampled call        = Complete (marked)      *)
(*   result(h,timed_out)  SamplingResult event           = Complete (timed out)   *)
EXTENDS Daser, Json, IOUtils, TLC
Rec == ndJsonDeserialize(IOEnv.TRACE)
VARIABLES l, requested       \* requested: h -> set of shares requested so far
tvars == <<stored, sampledS, meta, width, now, peers, phase, queue, ongoing, timedOut, promised, headH,
           hiPrunable, numPrunable, blk, obs, l, requested>>
Ev == Rec[l]
PairsOf(s) == {<<s[i][1], s[i][2]>> : i \in DOMAIN s}
Share == <<Ev.r, Ev.c>>
Stutter == UNCHANGED <<stored, sampledS, meta, width, now, peers, phase, queue, ongoing, timedOut, promised, headH,
                       hiPrunable, numPrunable, blk>> /\ obs' = NoObs
ReqOf(h) == IF h \in DOMAIN requested THEN requested[h] ELSE {}

TStep ==
    /\ l <= Len(Rec) /\ l' = l + 1
    /\ LET n == Ev.name IN
       \/ n = "reset" /\ stored' = {} /\ sampledS' = {} /\ meta' = <<>> /\ width' = <<>> /\ now' = Ev.now
                      /\ peers' = 0 /\ phase' = "connecting" /\ queue' = {} /\ ongoing' = {} /\ timedOut' = {}
                      /\ promised' = {} /\ headH' = 0 /\ hiPrunable' = 0 /\ numPrunable' = 0 /\ blk' = <<>>
                      /\ obs' = NoObs /\ requested' = <<>>
       \/ n = "tick"       /\ now' = Ev.now /\ obs' = NoObs /\ UNCHANGED requested
                           /\ UNCHANGED <<stored, sampledS, meta, width, peers, phase, queue, ongoing, timedOut, promised, headH, hiPrunable, numPrunable, blk>>
       \/ n = "insert"     /\ Insert(Ev.h, Ev.w) /\ UNCHANGED requested
       \/ n = "premark"    /\ Ev.h \in stored /\ sampledS' = sampledS \cup {Ev.h} /\ obs' = NoObs /\ UNCHANGED requested
                           /\ UNCHANGED <<stored, meta, width, now, peers, phase, queue, ongoing, timedOut, promised, headH, hiPrunable, numPrunable, blk>>
       \/ n = "remove"     /\ RemoveH(Ev.h) /\ UNCHANGED requested
       \/ n = "connect"    /\ Connect /\ UNCHANGED requested
       \/ n = "disconnect" /\ Disconnect /\ requested' = <<>>
       \/ n = "want"       /\ WantToPrune(Ev.h) /\ obs'.granted = (Ev.granted = 1) /\ UNCHANGED requested
       \/ n = "hp"         /\ SetHiPrunable(Ev.v) /\ UNCHANGED requested
       \/ n = "np"         /\ SetNumPrunable(Ev.v) /\ UNCHANGED requested
       \/ n = "meta"       /\ Ev.ok = 1 /\ Schedule(Ev.h, PairsOf(Ev.shares))
                           /\ Len(Ev.shares) = Cardinality(PairsOf(Ev.shares))            \* distinct
                           /\ requested' = [x \in (DOMAIN requested) \cup {Ev.h} |-> IF x = Ev.h THEN {} ELSE requested[x]]
       \* C33: a share is requested only after the block's metadata holds it
       \/ n = "req"        /\ Ev.h \in ongoing /\ Share \in blk[Ev.h].shares /\ Share \in meta[Ev.h]
                           /\ requested' = [requested EXCEPT ![Ev.h] = @ \cup {Share}] /\ Stutter
       \/ n = "started"    /\ Ev.h \in ongoing /\ PairsOf(Ev.shares) = blk[Ev.h].shares /\ Ev.w = width[Ev.h]
                           /\ Stutter /\ UNCHANGED requested
       \/ n = "ans"        /\ Share \in ReqOf(Ev.h) /\ ShareOk(Ev.h, Share) /\ UNCHANGED requested
       \/ n = "share_to"   /\ ShareTimeout(Ev.h, Share) /\ UNCHANGED requested
       \/ n = "bad"        /\ Share \in ReqOf(Ev.h) /\ ShareBad(Ev.h, Share) /\ UNCHANGED requested
       \/ n = "fatal"      /\ Stutter /\ UNCHANGED requested
       \/ n = "mark"       /\ Ev.ok = 1 /\ Complete(Ev.h) /\ obs'.marked /\ UNCHANGED requested
       \/ n = "result"     /\ UNCHANGED requested
                           \* a successful block is completed by the `mark` call that follows its result event
                           /\ IF Ev.timed_out = 1 THEN Complete(Ev.h) /\ ~obs'.marked
                              ELSE Ev.h \in ongoing /\ blk[Ev.h].ok = blk[Ev.h].shares /\ Stutter

TInit == Init /\ l = 1 /\ requested = <<>>
TSpec == TInit /\ [][TStep]_tvars

Accepted ==
    LET d == TLCGet("stats").diameter IN
    IF d - 1 = Len(Rec) THEN TRUE
    ELSE /\ PrintT(<<"REJECT-AT", d>>)
         /\ PrintT(ToJson(Rec[d]))
         /\ FALSE
=============================================================================
