CONSTANT NTasks = 2
CONSTANT MaxSteps = 2
CONSTANT Deviation = "none"
SPECIFICATION Spec
INVARIANTS JoinOnlyAfterEnd OneStepAfterCancel
PROPERTIES JoinAlways CancelStops NoStepAfterSaw EverybodyJoins
CHECK_DEADLOCK FALSE
