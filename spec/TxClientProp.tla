---------------------------- MODULE TxClientProp ----------------------------
(***************************************************************************)
(* C43, property layer.  Observables: what the node sees and answers, per  *)
(* submission s of one client:                                             *)
(*   begin(s)                  the submission starts                       *)
(*   acct(q)                   the account query is answered, sequence q   *)
(*   est(s, q, ans, e)         gas estimation of a tx signed with q        *)
(*   bcast(s, tx, q, ans, e)   broadcast of byte string `tx` signed with q *)
(*   status(s, tx, ans)        status query for tx                         *)
(*   end(s, res)               the submission returns                      *)
(* The monitor keeps the set B of sequences the client may believe current *)
(* according to the statement:                                             *)
(*   A  every broadcast of a newly signed tx is signed with a believed     *)
(*      sequence,                                                          *)
(*   B  an accepted broadcast (ok, or already in the mempool cache) of     *)
(*      sequence q makes q + 1 the believed sequence,                      *)
(*   C  a mismatch answer makes the node's expected value the believed     *)
(*      sequence, and the submission's next signature uses exactly it,     *)
(*   D  while a tx is under confirmation (in particular after `evicted`)   *)
(*      every broadcast of that submission carries the identical bytes.    *)
(* The statement is silent about a `rejected` status; the code rolls the   *)
(* sequence back to the rejected tx's.  The monitor allows both: between   *)
(* the rejected status and the end of that submission a roll-back to the   *)
(* tx's sequence may have happened (R), so that both a client that rolls   *)
(* back and one that does not satisfy the property layer.                  *)
(***************************************************************************)
EXTENDS Naturals, Sequences, FiniteSets

CONSTANT Subs
VARIABLES B,        \* set of sequences the client may believe current
          R,        \* R[s] = <<q>>: a roll-back to q by s may have happened, else <<>>
          ph,       \* ph[s] \in {"idle", "sign", "conf", "done"}
          cur,      \* cur[s] = <<tx, q>> under confirmation
          resync,   \* resync[s] = <<e>> after a mismatch answer to s, else <<>>
          bad       \* first violated clause, "" if none

pvars == <<B, R, ph, cur, resync, bad>>

Accepting == {"ok", "cached"}
SeqCodes  == {"seq"}                 \* rejection codes that mean "wrong sequence"

PInit == /\ B = {}
         /\ R = [s \in Subs |-> <<>>]
         /\ ph = [s \in Subs |-> "idle"]
         /\ cur = [s \in Subs |-> <<>>]
         /\ resync = [s \in Subs |-> <<>>]
         /\ bad = ""

PReset == /\ B' = {}
          /\ R' = [s \in Subs |-> <<>>]
          /\ ph' = [s \in Subs |-> "idle"]
          /\ cur' = [s \in Subs |-> <<>>]
          /\ resync' = [s \in Subs |-> <<>>]
          /\ bad' = ""

Flag(cond, name) == bad' = IF bad # "" THEN bad ELSE IF cond THEN "" ELSE name

RollVals == {R[s][1] : s \in {t \in Subs : R[t] # <<>>}}

ObsBegin(s) == /\ ph[s] = "idle"
               /\ ph' = [ph EXCEPT ![s] = "sign"]
               /\ UNCHANGED <<B, R, cur, resync, bad>>

ObsAcct(q) == B' = {q} /\ UNCHANGED <<R, ph, cur, resync, bad>>

ObsEst(s, q, ans, e) ==
    /\ ph[s] = "sign"
    /\ IF ans = "mismatch"
       THEN B' = {e} /\ resync' = [resync EXCEPT ![s] = <<e>>]
       ELSE UNCHANGED <<B, resync>>
    /\ UNCHANGED <<R, ph, cur, bad>>

ObsBcast(s, tx, q, ans, e) ==
    \/ /\ ph[s] = "sign"                                       \* newly signed transaction
       /\ LET okA == q \in (B \cup RollVals)
              okC == resync[s] = <<>> \/ q = resync[s][1]
          IN  bad' = IF bad # "" THEN bad
                     ELSE IF ~okC THEN "C-mismatch-not-resynchronised"
                     ELSE IF ~okA THEN "A-signed-with-unbelieved-sequence"
                     ELSE ""
       /\ UNCHANGED R          \* a possible roll-back stays possible until its submission ends
       /\ CASE ans \in Accepting -> /\ B' = {q + 1}
                                    /\ ph' = [ph EXCEPT ![s] = "conf"]
                                    /\ cur' = [cur EXCEPT ![s] = <<tx, q>>]
                                    /\ resync' = [resync EXCEPT ![s] = <<>>]
            [] ans = "mismatch"  -> /\ B' = {e}
                                    /\ resync' = [resync EXCEPT ![s] = <<e>>]
                                    /\ UNCHANGED <<ph, cur>>
            [] OTHER             -> /\ B' = {q}
                                    /\ resync' = [resync EXCEPT ![s] = <<>>]
                                    /\ UNCHANGED <<ph, cur>>
    \/ /\ ph[s] = "conf"                                       \* re-broadcast during confirmation
       /\ Flag(<<tx, q>> = cur[s], "D-rebroadcast-not-byte-identical")
       /\ UNCHANGED <<B, R, ph, cur, resync>>

ObsStatus(s, tx, ans, code) ==
    /\ ph[s] = "conf"
    /\ R' = IF ans = "rejected" /\ code \notin SeqCodes THEN [R EXCEPT ![s] = <<cur[s][2]>>] ELSE R
    /\ UNCHANGED <<B, ph, cur, resync, bad>>

ObsEnd(s, res) ==
    /\ ph[s] \in {"sign", "conf"}
    /\ ph' = [ph EXCEPT ![s] = "done"]
    /\ B' = IF R[s] # <<>> THEN B \cup {R[s][1]} ELSE B
    /\ R' = [R EXCEPT ![s] = <<>>]
    /\ UNCHANGED <<cur, resync, bad>>

PropOK == bad = ""
=============================================================================
