CONSTANT Dev = "none"
INIT Init
NEXT GenNext
VIEW View
CHECK_DEADLOCK FALSE
