------------------------------- MODULE HvCommit -------------------------------
(***************************************************************************)
(* C03 -- commit verification enforces the voting-power thresholds.        *)
(*                                                                         *)
(* One behaviour = one case: from the initial state a Decide* action picks *)
(* a validator set (powers from Palette), a commit (one entry kind per     *)
(* index), a presentation (chain / height parameters) and records in `out` *)
(* the case together with                                                  *)
(*   verdict : what the property demands (HeaderVerify!LightVerdict /      *)
(*             TrustVerdict) -- the oracle for the real code,              *)
(*   alg     : what the algorithm layer (the design of the Rust code)      *)
(*             answers -- compared as drift only.                          *)
(* Invariants (MC_HvCommit) state C03 on the algorithm layer.              *)
(***************************************************************************)
EXTENDS HeaderVerify, TLC

CONSTANTS MinN, MaxN,      \* validator set sizes (light) / trusted set sizes (trusting)
          MaxL,            \* commit lengths for trusting cases are 1..MaxL
          Palette,         \* voting powers
          Fams,            \* case families to enumerate (subset of AllFams)
          RMin, RMax, Reps \* random families: Reps cases for each set size in RMin..RMax

VARIABLES phase, out
vars == <<phase, out>>

H0 == 5          \* height of the block
CH == 1          \* chain the validators signed for
BID == 1         \* block id the validators signed for
RD == 0
TS(i) == 10 + i  \* timestamp of entry i
Fresh == 90      \* a key outside every validator set

NoSig == Sig(-1, Msg(0, 0, 0, 0, 0))
Garbage == Sig(0, Msg(0, 0, 0, 0, 0))

BaseKinds == {"absent", "nil", "ok", "bad"}
GoodKinds == {"absent", "nil", "ok"}
FancyKinds == {"otherval", "bid", "chain", "height", "round", "ts", "garbage", "nosig", "addr", "nilbad"}

\* entry of validator with key k at index i, of kind kd; n = size of the signing set
Entry(k, i, kd, other) ==
    LET good == Msg(CH, H0, RD, BID, TS(i)) IN
    CASE kd = "absent"   -> [flag |-> "absent", addr |-> 0, ts |-> 0, sig |-> NoSig]
      [] kd = "nil"      -> [flag |-> "nil", addr |-> k, ts |-> TS(i), sig |-> Sig(k, Msg(CH, H0, RD, 0, TS(i)))]
      [] kd = "nilbad"   -> [flag |-> "nil", addr |-> k, ts |-> TS(i), sig |-> Garbage]
      [] kd = "ok"       -> [flag |-> "commit", addr |-> k, ts |-> TS(i), sig |-> Sig(k, good)]
      [] kd = "bad"      -> [flag |-> "commit", addr |-> k, ts |-> TS(i), sig |-> Sig(Fresh, good)]
      [] kd = "otherval" -> [flag |-> "commit", addr |-> k, ts |-> TS(i), sig |-> Sig(other, good)]
      [] kd = "bid"      -> [flag |-> "commit", addr |-> k, ts |-> TS(i), sig |-> Sig(k, Msg(CH, H0, RD, BID + 1, TS(i)))]
      [] kd = "chain"    -> [flag |-> "commit", addr |-> k, ts |-> TS(i), sig |-> Sig(k, Msg(CH + 1, H0, RD, BID, TS(i)))]
      [] kd = "height"   -> [flag |-> "commit", addr |-> k, ts |-> TS(i), sig |-> Sig(k, Msg(CH, H0 + 1, RD, BID, TS(i)))]
      [] kd = "round"    -> [flag |-> "commit", addr |-> k, ts |-> TS(i), sig |-> Sig(k, Msg(CH, H0, RD + 1, BID, TS(i)))]
      [] kd = "ts"       -> [flag |-> "commit", addr |-> k, ts |-> TS(i), sig |-> Sig(k, Msg(CH, H0, RD, BID, TS(i) + 1))]
      [] kd = "garbage"  -> [flag |-> "commit", addr |-> k, ts |-> TS(i), sig |-> Garbage]
      [] kd = "nosig"    -> [flag |-> "commit", addr |-> k, ts |-> TS(i), sig |-> NoSig]
      [] kd = "addr"     -> [flag |-> "commit", addr |-> Fresh, ts |-> TS(i), sig |-> Sig(k, good)]

---------------------------------------------------------------------------
(* light cases *)

LightMods == {"none", "hparam", "hcommit", "chainparam", "short", "long"}

LightCase(n, pw, kd, md) ==
    LET vals == [i \in 1..n |-> Val(i, pw[i])]
        other(i) == IF n = 1 THEN Fresh ELSE (i % n) + 1
        full == [i \in 1..n |-> Entry(i, i, kd[i], other(i))]
        sigs == CASE md = "short" -> SubSeq(full, 1, n - 1)
                  [] md = "long"  -> Append(full, full[n])
                  [] OTHER        -> full
        c == [h |-> IF md = "hcommit" THEN H0 + 1 ELSE H0, round |-> RD, bid |-> BID, sigs |-> sigs]
        chain == IF md = "chainparam" THEN CH + 1 ELSE CH
        h == IF md = "hparam" THEN H0 + 1 ELSE H0
    IN [op |-> "light", vals |-> vals, chain |-> chain, h |-> h, commit |-> c,
        kinds |-> kd, mod |-> md,
        total |-> Total(vals),
        signed |-> LightSignedPower(vals, chain, h, c),
        need |-> (2 * Total(vals)) \div 3,
        wf |-> LightWellFormed(vals, chain, h, c),
        verdict |-> LightVerdict(vals, chain, h, c),
        alg |-> AlgLight(vals, chain, h, c)]

\* the initial states fix the family, the set size and the powers; the Decide* step picks the rest
DecideLightBase ==
    /\ phase = "new" /\ out.fam = "light_base"
    /\ \E kd \in [1..out.n -> BaseKinds] : out' = LightCase(out.n, out.pw, kd, "none")
    /\ phase' = "done"

DecideLightFancy ==
    /\ phase = "new" /\ out.fam = "light_fancy"
    /\ \E kd \in [1..out.n -> GoodKinds] : \E p \in 1..out.n : \E f \in FancyKinds :
          /\ kd[p] = "ok"
          /\ out' = LightCase(out.n, out.pw, [kd EXCEPT ![p] = f], "none")
    /\ phase' = "done"

DecideLightMod ==
    /\ phase = "new" /\ out.fam = "light_mod"
    /\ \E kd \in [1..out.n -> BaseKinds] : \E md \in LightMods \ {"none"} :
          out' = LightCase(out.n, out.pw, kd, md)
    /\ phase' = "done"

---------------------------------------------------------------------------
(* trusting cases: trusted set = keys 1..m; the commit belongs to another  *)
(* set whose i-th member is `own[i]` (m+1, m+2 are strangers), possibly    *)
(* listing a validator twice                                               *)

EntryOpts(m) == {<<0, "absent">>} \cup ((1..(m + 1)) \X {"nil", "ok", "bad"})
GoodOpts(m) == {<<0, "absent">>} \cup ((1..(m + 1)) \X {"nil", "ok"})
Monotone(pw, m) == \A i \in 1..(m - 1) : pw[i] <= pw[i + 1]
TrustMods == {"none", "chainparam"}

TrustCase(m, pw, es, md) ==
    LET tvals == [j \in 1..m |-> Val(j, pw[j])]
        l == Len(es)
        owner(i) == IF es[i][1] = 0 THEN 100 + i ELSE es[i][1]
        other(i) == IF m = 1 THEN Fresh ELSE (owner(i) % m) + 1
        uvals == [i \in 1..l |-> Val(owner(i), 1)]
        sigs == [i \in 1..l |-> Entry(owner(i), i, es[i][2], other(i))]
        c == [h |-> H0, round |-> RD, bid |-> BID, sigs |-> sigs]
        chain == IF md = "chainparam" THEN CH + 1 ELSE CH
    IN [op |-> "trusting", vals |-> tvals, uvals |-> uvals, chain |-> chain, h |-> H0, commit |-> c,
        kinds |-> [i \in 1..l |-> es[i][2]], mod |-> md,
        total |-> Total(tvals),
        signed |-> TrustSignedPower(tvals, chain, c),
        need |-> Total(tvals) \div 3,
        wf |-> TrustWellFormed(uvals, chain, c),
        verdict |-> TrustVerdict(tvals, uvals, chain, c),
        alg |-> AlgTrust(tvals, chain, c)]

DecideTrustBase ==
    /\ phase = "new" /\ out.fam = "trust_base"
    /\ \E l \in 1..MaxL : \E es \in [1..l -> EntryOpts(out.n)] :
          out' = TrustCase(out.n, out.pw, es, "none")
    /\ phase' = "done"

DecideTrustMod ==
    /\ phase = "new" /\ out.fam = "trust_mod"
    /\ \E l \in 1..(MaxL - 1) : \E es \in [1..l -> EntryOpts(out.n)] :
          out' = TrustCase(out.n, out.pw, es, "chainparam")
    /\ phase' = "done"

DecideTrustFancy ==
    /\ phase = "new" /\ out.fam = "trust_fancy"
    /\ \E l \in 1..(MaxL - 1) : \E es \in [1..l -> GoodOpts(out.n)] : \E p \in 1..l : \E f \in FancyKinds :
          /\ es[p][2] = "ok"
          /\ out' = TrustCase(out.n, out.pw, [es EXCEPT ![p] = <<es[p][1], f>>], "none")
    /\ phase' = "done"

---------------------------------------------------------------------------
(* larger sets: TLC draws the powers and the entry kinds at random (one case per initial state) *)
RPalette == 1..9
AllKinds == BaseKinds \cup FancyKinds

DecideLightRandom ==
    /\ phase = "new" /\ out.fam = "light_random"
    /\ LET n == out.n
           pw == [i \in 1..n |-> RandomElement(RPalette)]
           kd == [i \in 1..n |-> IF RandomElement(1..15) = 1 THEN RandomElement(AllKinds)
                                  ELSE IF RandomElement(1..3) = 1 THEN RandomElement(GoodKinds) ELSE "ok"]
       IN out' = LightCase(n, pw, kd, IF RandomElement(1..4) = 1 THEN RandomElement(LightMods) ELSE "none")
    /\ phase' = "done"

DecideTrustRandom ==
    /\ phase = "new" /\ out.fam = "trust_random"
    /\ LET m == out.n
           pw == [i \in 1..m |-> RandomElement(RPalette)]
           l == RandomElement((m - 2)..(m + 2))
           es == [i \in 1..l |-> IF RandomElement(1..4) = 1 THEN <<0, "absent">>
                                  ELSE <<IF RandomElement(1..10) = 1 THEN RandomElement(1..(m + 1)) ELSE HvMin(i, m + 1),
                                         RandomElement(IF RandomElement(1..15) = 1 THEN AllKinds \ {"absent"} ELSE {"nil", "ok"})>>]
       IN out' = TrustCase(m, pw, es, IF RandomElement(1..8) = 1 THEN "chainparam" ELSE "none")
    /\ phase' = "done"

AllFams == {"light_base", "light_fancy", "light_mod", "trust_base", "trust_mod", "trust_fancy",
            "light_random", "trust_random"}
ASSUME Fams \subseteq AllFams

Init == /\ phase = "new"
        /\ \E n \in MinN..MaxN :
              \/ \E pw \in [1..n -> Palette] : \E fam \in {"light_base", "light_fancy", "light_mod"} \cap Fams :
                    out = [op |-> "none", fam |-> fam, n |-> n, pw |-> pw]
              \/ \E pw \in {f \in [1..n -> Palette] : Monotone(f, n)} :
                 \E fam \in {"trust_base", "trust_mod", "trust_fancy"} \cap Fams :
                    out = [op |-> "none", fam |-> fam, n |-> n, pw |-> pw]
        \/ /\ phase = "new"
           /\ \E n \in RMin..RMax : \E r \in 1..Reps : \E fam \in {"light_random", "trust_random"} \cap Fams :
                    out = [op |-> "none", fam |-> fam, n |-> n, rep |-> r]
Next == DecideLightBase \/ DecideLightFancy \/ DecideLightMod \/ DecideTrustBase \/ DecideTrustMod \/ DecideTrustFancy
        \/ DecideLightRandom \/ DecideTrustRandom
Spec == Init /\ [][Next]_vars

---------------------------------------------------------------------------
(* C03 on the algorithm layer *)
Done == phase = "done"

\* never accepts unless the signing power is strictly above the threshold
Soundness == Done /\ out.alg = "ok" => out.verdict # "MustReject"
\* exactness under the antecedent (right height, one entry per validator, valid commit sigs)
Exactness == Done /\ out.wf => (out.alg = "ok" <=> out.verdict = "MustAccept")
\* the integer threshold floor(k*T/3) is the strict rational bound
ThresholdLemma ==
    Done => /\ out.op = "light" => ((out.signed > out.need) <=> (3 * out.signed > 2 * out.total))
            /\ out.op = "trusting" => ((out.signed > out.need) <=> (3 * out.signed > out.total))
\* a validator is never counted twice: the counted power never exceeds the total
NoDoubleCount == Done => out.signed <= out.total
VerdictShape ==
    Done => /\ out.verdict \in {"MustAccept", "MustReject", "Either"}
            /\ out.verdict = "MustAccept" => out.wf /\ out.signed > out.need
            /\ out.verdict = "MustReject" <=> ~(out.signed > out.need)
=============================================================================
