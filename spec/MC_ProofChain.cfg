CONSTANT AsIsEmptyValue = FALSE
INIT Init
NEXT Next
INVARIANTS SoundInv CompleteInv
CHECK_DEADLOCK FALSE
