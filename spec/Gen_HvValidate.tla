----------------------------- MODULE Gen_HvValidate -----------------------------
(* spec -> impl: one JSON line per case (configuration x mutation) *)
EXTENDS HvValidate, Json
GenNext == Next /\ PrintT(ToJson(out'))
=============================================================================
