--------------------------- MODULE Gen_Subscriptions -------------------------
(* spec -> impl for C37: TLC (simulation mode) walks the BroadcastingStore model *)
(* over heights 1..N and prints each walk of length D as one JSON line: the list *)
(* of operations the harness then performs on the real BroadcastingStore.  The   *)
(* recorded run is judged by Trace_Subscriptions.                                 *)
EXTENDS Subscriptions, TLC, Json
CONSTANTS N, D
VARIABLE hist
gvars == <<stored, lastSent, pending, delivered, head0, known, res, hist>>
GInit == Init /\ hist = <<>>
GNext == /\ Len(hist) < D
         /\ \/ \E h \in 1..N : InitBroadcast(h) /\ hist' = Append(hist, [name |-> "init", a |-> h, b |-> h])
            \/ \E lo, hi \in 1..N : AnnounceInsert(lo, hi) /\ hist' = Append(hist, [name |-> "insert", a |-> lo, b |-> hi])
Emit == Len(hist) = D => PrintT(ToJson([ops |-> hist]))
=============================================================================
