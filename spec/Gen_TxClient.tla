---------------------------- MODULE Gen_TxClient ----------------------------
(***************************************************************************)
(* spec -> impl.  Schedules for the gated replay on the real client: an    *)
(* environment step starts a submission or answers one parked request of   *)
(* the fake node; the client then runs until every submission is parked    *)
(* again, i.e. the internal steps (account known, queueing for the lock,   *)
(* grant, roll-back, return) and the automatically answered account query  *)
(* take priority.  `hist` = expected event list, printed at terminal       *)
(* states.                                                                 *)
(***************************************************************************)
EXTENDS TxClient, Json, TLC
CONSTANTS Q0, MaxConc
VARIABLE hist

Ev(name, s, q, ans, e, tx) == [name |-> name, s |-> s, q |-> q, ans |-> ans, e |-> e, tx |-> tx]

Active == {s \in Subs : pc[s] \notin {"idle", "done"}}
Busy == \/ lock = 0 /\ lockq # <<>>
        \/ \E s \in Subs : pc[s] \in {"acct", "queue", "rbqueue", "ret"}

GenInit == AInit /\ hist = <<>>

GenNext ==
    IF Busy
    THEN \/ Internal /\ UNCHANGED hist
         \/ \E s \in Subs :
              \/ Acct(s, Q0) /\ hist' = Append(hist, Ev("acct", 0, Q0, "", 0, 0))
              \/ Return(s) /\ hist' = Append(hist, Ev("end", s, 0, res[s], 0, 0))
    ELSE \E s \in Subs :
         \/ /\ Cardinality(Active) < MaxConc
            /\ \A t \in Subs : t < s => pc[t] # "idle"
            /\ Begin(s) /\ hist' = Append(hist, Ev("begin", s, 0, "", 0, 0))
         \/ \E ans \in {"ok", "err"} : Est(s, ans, 0) /\ hist' = Append(hist, Ev("est", s, seq, ans, 0, 0))
         \/ \E e \in SeqVals : Est(s, "mismatch", e) /\ hist' = Append(hist, Ev("est", s, seq, "mismatch", e, 0))
         \/ \E e \in SeqVals : Bcast(s, "mismatch", e) /\ hist' = Append(hist, Ev("bcast", s, seq, "mismatch", e, Tx(s, seq)))
         \/ \E ans \in BAns \ {"mismatch"} :
                Bcast(s, ans, 0) /\ hist' = Append(hist, Ev("bcast", s, seq, ans, 0, Tx(s, seq)))
         \/ \E ans \in BAns \ {"mismatch"} :
                Rebcast(s, ans, 0) /\ hist' = Append(hist, Ev("bcast", s, mytx[s][2], ans, 0, mytx[s][1]))
         \/ \E e \in SeqVals :
                Rebcast(s, "mismatch", e) /\ hist' = Append(hist, Ev("bcast", s, mytx[s][2], "mismatch", e, mytx[s][1]))
         \/ \E ans \in SAns \ {"rejected"} :
                Status(s, ans, "") /\ hist' = Append(hist, Ev("status", s, 0, ans, 0, mytx[s][1]))
         \/ \E code \in Codes :
                Status(s, "rejected", code) /\ hist' = Append(hist, Ev("status", s, 0, "rejected-" \o code, 0, mytx[s][1]))

Bound == seq = None \/ seq <= MaxSeq + Cardinality(Subs)
Done == \A s \in Subs : pc[s] = "done"
Emit == Done => PrintT(ToJson([q0 |-> Q0, est |-> UseEst, hist |-> hist]))
=============================================================================
