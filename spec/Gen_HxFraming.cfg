CONSTANT Classes = {"e", "s", "l"}
CONSTANT MaxFrames = 2
CONSTANT MaxCuts = 2
CONSTANT Garbage = {"none", "gl", "gb", "gv"}
INIT Init
NEXT Next
INVARIANTS Emit
CHECK_DEADLOCK FALSE
