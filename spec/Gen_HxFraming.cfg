CONSTANT Classes = {"e", "s", "l"}
CONSTANT MaxFrames = 2
CONSTANT MaxCuts = 2
CONSTANT Garbage = {"none", "gl", "gb", "gv"}
CONSTANT Sizes = {"lim"}
CONSTANT FullOnly = FALSE
INIT Init
NEXT Next
INVARIANTS Emit
CHECK_DEADLOCK FALSE
