CONSTANTS
  MinAmt = 8
  MaxAmt = 64
  MaxConc = 8
SPECIFICATION TSpec
INVARIANTS RequestsOk OutDisjoint DoneComplete NothingLost
POSTCONDITION Accepted
CHECK_DEADLOCK FALSE
