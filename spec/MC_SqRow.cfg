CONSTANT K = 2
INIT Init
NEXT Next
INVARIANTS RowSound HonestDecodes AcceptOnlyRow
CHECK_DEADLOCK FALSE
