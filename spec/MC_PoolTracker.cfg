CONSTANT Peers = {1, 2}
CONSTANT Heights = {1, 2, 11}
CONSTANT Window = 10
CONSTANT MaxEv = 2
CONSTANT DupValidated = "block"
CONSTANT XHash <- XH
SPECIFICATION Spec
VIEW View
INVARIANTS OldDropped NoPanic OldDroppedAtTen TaskShape
PROPERTIES OfferedAnnounced OwedBlocked
CHECK_DEADLOCK FALSE
