CONSTANT Peers = {1, 2}
CONSTANT Up = {1, 2, 11}
CONSTANT Down = {12}
CONSTANT Window = 10
CONSTANT MaxEv = 2
CONSTANT DupValidated = "block"
CONSTANT XHash <- XH
SPECIFICATION Spec
VIEW View
INVARIANTS OldDropped NoPanic OldDroppedAtTen TaskShape
PROPERTIES OfferedAnnounced OwedBlocked
CHECK_DEADLOCK FALSE
