-------------------------- MODULE Trace_BlockRanges -------------------------
(* impl -> spec: a recorded history of BlockRanges operations (heights      *)
(* relative to the window base) drives the same actions; the logged result  *)
(* and the logged representation must be what the action yields.            *)
EXTENDS BlockRanges, Json, IOUtils, TLC
Rec == ndJsonDeserialize(IOEnv.TRACE)
VARIABLE l
tvars == <<S, op, res, l>>
Ev == Rec[l]

Observed == /\ CanonicalRanges(Ev.st) /\ SetOfRanges(Ev.st) = S'   \* representation invariant + denotation
ResIs    == res' = Ev.res
ResSet   == CanonicalRanges(Ev.res) /\ res' = SetOfRanges(Ev.res)

TStep ==
    /\ l <= Len(Rec) /\ l' = l + 1
    /\ LET n == Ev.name IN
       \/ n = "reset"          /\ S' = {} /\ op' = NoArg /\ res' = Ok
       \/ n = "insert_relaxed" /\ InsertRelaxed(Ev.x, Ev.y) /\ ResIs /\ Observed
       \/ n = "remove_relaxed" /\ RemoveRelaxed(Ev.x, Ev.y) /\ ResIs /\ Observed
       \/ n = "union"          /\ CanonicalRanges(Ev.t) /\ Union(SetOfRanges(Ev.t)) /\ Observed
       \/ n = "difference"     /\ CanonicalRanges(Ev.t) /\ Difference(SetOfRanges(Ev.t)) /\ Observed
       \/ n = "intersection"   /\ CanonicalRanges(Ev.t) /\ Intersection(SetOfRanges(Ev.t)) /\ Observed
       \/ n = "complement"     /\ Complement /\ Ev.outside = 1 /\ Observed
       \/ n = "pop_head"       /\ PopHead /\ ResIs /\ Observed
       \/ n = "pop_tail"       /\ PopTail /\ ResIs /\ Observed
       \/ n = "contains"       /\ QContains(Ev.x) /\ ResIs /\ Observed
       \/ n = "len"            /\ QLen /\ ResIs /\ Observed
       \/ n = "is_empty"       /\ QIsEmpty /\ ResIs /\ Observed
       \/ n = "head"           /\ QHead /\ ResIs /\ Observed
       \/ n = "tail"           /\ QTail /\ ResIs /\ Observed
       \/ n = "headn"          /\ QHeadN(Ev.x) /\ ResSet /\ Observed
       \/ n = "tailn"          /\ QTailN(Ev.x) /\ ResSet /\ Observed
       \/ n = "edges"          /\ QEdges /\ ResSet /\ Observed
       \/ n = "left_of"        /\ QLeftOf(Ev.x) /\ ResIs /\ Observed
       \/ n = "right_of"       /\ QRightOf(Ev.x) /\ ResIs /\ Observed
       \/ n = "check_insertion_constraints" /\ CheckInsertion(Ev.x, Ev.y) /\ ResIs /\ Observed
       \/ n = "partitions"     /\ QPartitions /\ Observed
                               /\ IF S = {} THEN Ev.res = <<>>
                                  ELSE /\ Len(Ev.res) = 3
                                       /\ CanonicalRanges(Ev.res[1]) /\ CanonicalRanges(Ev.res[3])
                                       /\ IsBalancedPartition(S, SetOfRanges(Ev.res[1]), Ev.res[2],
                                                              SetOfRanges(Ev.res[3]))

TInit == Init /\ l = 1
TSpec == TInit /\ [][TStep]_tvars

Accepted ==
    LET d == TLCGet("stats").diameter IN
    IF d - 1 = Len(Rec) THEN TRUE
    ELSE /\ PrintT(<<"REJECT-AT", d>>)
         /\ PrintT(ToJson(Rec[d]))
         /\ FALSE
=============================================================================
