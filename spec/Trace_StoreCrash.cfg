CONSTANTS
  TxPerOp = 1
  ChunkMax = 0
  DurableCommit = TRUE
  MaxOps = 0
SPECIFICATION TSpec
POSTCONDITION Accepted
CHECK_DEADLOCK FALSE
