---------------------------- MODULE Gen_Executor ----------------------------
(* spec -> impl: for every plan of one task TLC explores all behaviours; each terminal    *)
(* state prints (plan, how the task ended, how many steps it logged).  The union of the    *)
(* lines of a plan is the set of outcomes the model allows for it; the harness runs every  *)
(* plan on the real executor (many seeded repetitions) and each real outcome must be one   *)
(* of them.  (cnt = MaxSteps + 1 means "MaxSteps + 1 or more".)                            *)
EXTENDS Executor, Json, TLC
Terminal == \A i \in Tasks : jpc[i] = "returned"
B(b) == IF b THEN 1 ELSE 0
GenNext == /\ Next
           /\ Terminal' => PrintT(ToJson([c |-> B(plan[1].c), n |-> plan[1].n, fin |-> plan[1].fin, x |-> B(plan[1].x),
                                          endk |-> endk'[1], cnt |-> cnt'[1]]))
=============================================================================
