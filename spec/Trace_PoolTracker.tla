-------------------------- MODULE Trace_PoolTracker -------------------------
(* impl -> spec: a recorded history of the real PoolTracker (operations of the harness:  *)
(* announce / remove_peer / arrive / advance / poll) with, after every step, the result,  *)
(* get_pool(h) for every height and the subjective head.  Every line must be what the     *)
(* model's action yields; where the model is nondeterministic (which of several finished  *)
(* header tasks a poll handles first) any of its choices may explain the line.            *)
EXTENDS PoolTracker, Json, IOUtils, TLC
Rec == ndJsonDeserialize(IOEnv.TRACE)
VARIABLE l
tvars == <<vars, l>>
Ev == Rec[l]
XH == [h \in Heights |-> {h}]

ResEq(m, r) == /\ m[1] = r[1]
               /\ Len(m) = 2 => (Len(r) = 2 /\ m[2] = SeqSet(r[2]))
Match == /\ ResEq(res', Ev.res) /\ hd' = Ev.hd
         /\ \A h \in Heights : Query(h)' = Ev.q[ToString(h)]

Act == LET n == Ev.name IN
       \/ n = "announce"    /\ Announce(Ev.p, Ev.x, Ev.h)
       \/ n = "remove_peer" /\ RemovePeer(Ev.p)
       \/ n = "arrive"      /\ Arrive(Ev.h)
       \/ n = "advance"     /\ Advance
       \/ n = "poll"        /\ Poll

TStep == /\ l <= Len(Rec) /\ l' = l + 1
         /\ IF Ev.name = "reset"
            THEN /\ hd' = None /\ pools' = [h \in Heights |-> NoPool] /\ vpk' = {} /\ vp' = [x \in Hashes |-> <<>>]
                 /\ tasks' = {} /\ initTask' = TRUE /\ arrived' = {h \in Heights : h <= 0} /\ expired' = {} /\ quiet' = FALSE /\ ev' = <<>>
                 /\ owe' = {} /\ blk' = {} /\ why' = ""
                 /\ op' = [a |-> "init", p |-> 0, x |-> 0, h |-> 0] /\ res' = <<"none">>
            ELSE Act /\ Match

TInit == Init /\ l = 1
TSpec == TInit /\ [][TStep]_tvars

Accepted ==
    LET d == TLCGet("stats").diameter IN
    IF d - 1 = Len(Rec) THEN TRUE
    ELSE /\ PrintT(<<"REJECT-AT", d>>)
         /\ PrintT(ToJson(Rec[d]))
         /\ FALSE
=============================================================================
