CONSTANTS
  N = 6
  Batch = 2
  WSamp = 6
  WPrune = 2
  AsIsDeviation = FALSE
  EnablePrune = FALSE
  EnableForeign = FALSE
  SlowThr = 1
SPECIFICATION LiveSpecSlow
INVARIANTS TypeOK StoreOnHonestChain NoRequestBelowOldHeader FetchAllowed
INVARIANT SlowSyncNeverHolds
CHECK_DEADLOCK FALSE
