CONSTANT MinN = 1
CONSTANT MaxN = 3
CONSTANT MaxL = 3
CONSTANT Palette = {1, 2, 3}
CONSTANT Fams = {"light_base", "light_fancy", "light_mod", "trust_base", "trust_mod", "trust_fancy", "light_random", "trust_random"}
CONSTANT RMin = 8
CONSTANT RMax = 10
CONSTANT Reps = 50
INIT Init
NEXT Next
INVARIANTS Soundness Exactness ThresholdLemma NoDoubleCount VerdictShape
CHECK_DEADLOCK FALSE
