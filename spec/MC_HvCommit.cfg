CONSTANT MinN = 1
CONSTANT MaxN = 3
CONSTANT MaxL = 3
CONSTANT Palette = {1, 2, 3}
INIT Init
NEXT Next
INVARIANTS Soundness Exactness ThresholdLemma NoDoubleCount VerdictShape
CHECK_DEADLOCK FALSE
