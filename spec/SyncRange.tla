------------------------------ MODULE SyncRange ------------------------------
(***************************************************************************)
(* C24.  Batch selection of the syncer (node/src/syncer.rs                 *)
(* calculate_range_to_fetch).                                              *)
(*                                                                         *)
(*   synced - heights that are stored or pruned                            *)
(*   head   - subjective network head, limit - batch size                  *)
(*                                                                         *)
(* Algorithmic layer: CalcRange transcribes the function.                  *)
(* Property layer:    Allowed(head, synced, limit, B) is the statement.    *)
(***************************************************************************)
EXTENDS Naturals, FiniteSets, Sequences, Ranges

(* ---- algorithmic layer ---- *)
\* tailn / headn of an inclusive range, as sets
RangeTailN(a, b, n) == {x \in a..b : x < a + n}
RangeHeadN(a, b, n) == {x \in a..b : x + n > b}

CalcRange(head, synced, limit) ==
    IF synced = {} THEN RangeTailN(1, head, limit)
    ELSE LET rs  == RunSeq(synced)
             top == rs[Len(rs)]
         IN IF top[2] < head THEN RangeTailN(top[2] + 1, head, limit)
            ELSE LET pen == IF Len(rs) >= 2 THEN rs[Len(rs) - 1][2] ELSE 0
                 IN IF top[1] = 0 THEN {} ELSE RangeHeadN(pen + 1, top[1] - 1, limit)

(* ---- property layer ---- *)
Contiguous(B) == B = {} \/ B = MinOf(B)..MaxOf(B)
TopRunStart(synced) == LET rs == RunSeq(synced) IN rs[Len(rs)][1]
MaxSynced(synced) == IF synced = {} THEN 0 ELSE MaxOf(synced)

\* Is there any height a batch could legitimately contain?
BehindHead(head, synced) == MaxSynced(synced) < head
GapBelowTop(synced) == synced # {} /\ (TopRunStart(synced) - 1) >= 1 /\ (TopRunStart(synced) - 1) \notin synced

Allowed(head, synced, limit, B) ==
    /\ B \cap synced = {}
    /\ Cardinality(B) <= limit
    /\ Contiguous(B)
    /\ 0 \notin B
    /\ B # {} => /\ MaxOf(B) <= head
                 /\ IF BehindHead(head, synced)
                    THEN MinOf(B) = MaxSynced(synced) + 1          \* directly above the highest synced height
                    ELSE MaxOf(B) = TopRunStart(synced) - 1        \* directly below the highest synced range
    \* empty only when nothing qualifies
    /\ B = {} => \/ limit = 0
                 \/ ~BehindHead(head, synced) /\ ~GapBelowTop(synced)
                 \/ ~BehindHead(head, synced) /\ TopRunStart(synced) - 1 > head   \* nothing at or below the head qualifies
                 \/ head = 0

\* Inserting the batch extends stored data (C18's Admit on the synced set)
Extends(synced, B) == B = {} \/ Admit(synced, MinOf(B), MaxOf(B))
=============================================================================
