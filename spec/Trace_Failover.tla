--------------------------- MODULE Trace_Failover ---------------------------
(***************************************************************************)
(* impl -> spec, algorithmic layer.  Recorded events `start`, `att`, `end` *)
(* drive Start, Attempt, Return of Failover; the unobservable Load and     *)
(* Store may happen at any moment between the events that frame them       *)
(* (they do not consume an event), so recordings of really concurrent      *)
(* callers are explained too.  Register 1 holds the furthest event index   *)
(* any branch reached.                                                     *)
(***************************************************************************)
EXTENDS Failover, Json, IOUtils, TLC
Rec == ndJsonDeserialize(IOEnv.TRACE)
VARIABLE l
tvars == <<vars, l>>
E == Rec[l]

Reach(k) == TLCSet(1, IF TLCGet(1) < k THEN k ELSE TLCGet(1))

TStep ==
    \/ /\ l <= Len(Rec) /\ l' = l + 1
       /\ LET nm == E.name IN
          \/ nm = "reset" /\ E.n \in 1..8 /\ n' = E.n /\ cell' = Ident(E.n)
                          /\ att' = [c \in Calls |-> <<>>] /\ st' = [c \in Calls |-> "idle"]
                          /\ solo' = [c \in Calls |-> FALSE] /\ must' = [c \in Calls |-> <<>>] /\ pred' = <<>>
                          /\ pc' = [c \in Calls |-> "idle"] /\ snap' = [c \in Calls |-> <<>>]
                          /\ idx' = [c \in Calls |-> 0] /\ ret' = [c \in Calls |-> ""]
          \/ nm = "start" /\ E.c \in Calls /\ Start(E.c)
          \/ nm = "att"   /\ E.c \in Calls /\ pc[E.c] = "try" /\ snap[E.c][idx[E.c]] = E.e /\ Attempt(E.c, E.r)
          \/ nm = "end"   /\ E.c \in Calls /\ pc[E.c] = "ret" /\ ret[E.c] = E.r /\ Return(E.c)
       /\ Reach(l + 1)
    \/ /\ l <= Len(Rec) /\ UNCHANGED l
       /\ \E c \in Calls : Internal(c)

TInit == AInit(1) /\ l = 1 /\ TLCSet(1, 1)
TSpec == TInit /\ [][TStep]_tvars

Accepted ==
    LET d == TLCGet(1) IN
    IF d = Len(Rec) + 1 THEN TRUE
    ELSE /\ PrintT(<<"REJECT-AT", d>>)
         /\ PrintT(ToJson(Rec[d]))
         /\ FALSE
=============================================================================
