CONSTANT Calls = {1, 2, 3, 4, 5, 6, 7, 8}
SPECIFICATION TSpec
POSTCONDITION Accepted
CHECK_DEADLOCK FALSE
