---------------------------- MODULE Trace_StoreCrash ----------------------------
(* impl -> spec for C22.  A recorded history of operations on a real RedbStore   *)
(* over a journaling storage backend ("op" events: journal positions before /    *)
(* after the call and the complete observable projection of the store), followed *)
(* by crash points: "crash" (journal position p, which unsynced writes survive)  *)
(* and "recovered" (projection of the store reopened from that image, or the     *)
(* error reopening gave).                                                        *)
(*                                                                               *)
(* The "op" events drive the Store.tla actions: the state after every prefix of   *)
(* the history is the model's, whatever the live store showed.                   *)
(* The spec decides from the journal positions which operations had returned     *)
(* (je <= p) and whether one was in flight (jb < p < je), sets ackd / infl of    *)
(* StoreCrash accordingly and accepts a "recovered" event only if the recovered  *)
(* tables satisfy StoreCrash!RecoveredOK - the predicate CrashSafe demands of    *)
(* every crash in the model, with ackd / infl the MODEL states after those        *)
(* prefixes - and every other query of the projection agrees with the tables;    *)
(* a "recovered" event that fails is reported as <<"REJECTED", position>>.       *)
(* The medium variables (file, cache, plan, txc, root) are not observable and    *)
(* stay at their initial values.                                                 *)
EXTENDS StoreCrash, Json, IOUtils
Rec == ndJsonDeserialize(IOEnv.TRACE)
VARIABLES l,      \* position in the trace
          D,      \* header descriptors, D[id] (ids are handed out consecutively from 1)
          hist,   \* "op" events so far (operation i at index i+1; operation 0 = RedbStore::new on the fresh file)
          habs,   \* the abstract state read from each of them (same indexing)
          cp      \* <<>> or <<crash event>> awaiting its "recovered"
tvars == <<allvars, l, D, hist, habs, cp>>
Ev == Rec[l]

ToSetOf(s) == {s[i] : i \in DOMAIN s}

(* ---- reading a projection ---- *)
\* Long chains travel run-length encoded: st.byh is a sequence of <<first height, last height, id of
\* the first header>> (ids ascend with the heights), st.byhash of <<first tag, last tag, id of the first
\* header>>, st.hasat / st.has / st.metanone are range lists.
KnownIds(st) == /\ \A i \in DOMAIN st.byh : st.byh[i][3] >= 1 /\ st.byh[i][3] + (st.byh[i][2] - st.byh[i][1]) <= Len(D)
                /\ \A i \in DOMAIN st.byhash : st.byhash[i][3] >= 1 /\ st.byhash[i][3] + (st.byhash[i][2] - st.byhash[i][1]) <= Len(D)
RunAt(rs, x) == rs[CHOOSE i \in DOMAIN rs : rs[i][1] <= x /\ x <= rs[i][2]]
IdAt(rs, x)  == RunAt(rs, x)[3] + (x - RunAt(rs, x)[1])
\* the four tables as the queries show them: H = get_by_height, X = get_by_hash, R = the range queries, M = metadata
ImgOfProj(st) ==
    [H |-> [h \in SetOfRanges(st.byh) |-> D[IdAt(st.byh, h)]],
     X |-> {<<t, D[IdAt(st.byhash, t)].h>> : t \in SetOfRanges(st.byhash)},
     R |-> [st |-> SetOfRanges(st.stored), sa |-> SetOfRanges(st.sampled), pr |-> SetOfRanges(st.pruned)],
     M |-> [h \in {st.meta[i][1] : i \in DOMAIN st.meta} |->
               ToSetOf(st.meta[CHOOSE i \in DOMAIN st.meta : st.meta[i][1] = h][2])]]
\* the remaining queries agree with the tables
QueriesAgree(st, g) ==
    /\ CanonicalRanges(st.stored) /\ CanonicalRanges(st.sampled) /\ CanonicalRanges(st.pruned)
    /\ st.byh_bad = <<>>                              \* every header sits at its own height
    /\ SetOfRanges(st.hasat) = g.R.st
    /\ SetOfRanges(st.has) = {x[1] : x \in g.X}
    /\ SetOfRanges(st.metanone) = g.R.st \ DOMAIN g.M
    /\ st.hh = HeadOpt(g.R.st)
    /\ st.head = (IF g.R.st = {} THEN <<>> ELSE <<g.H[MaxOf(g.R.st)].id>>)
    /\ st.ident = 1                                  \* the node identity persisted at first open

(* ---- which operations had returned at journal position p ---- *)
NOps       == Len(hist) - 1
Acked(p)   == MaxOf({i \in 0..NOps : hist[i + 1].je <= p})
InFlight(p) == Acked(p) < NOps /\ hist[Acked(p) + 2].jb < p
(* ---- the operations: the state after a prefix is what Store.tla says it is ---- *)
\* Every "op" event drives the Store action it names on the abstract state; whether an operation
\* succeeds and what it changes is decided here, not read from the implementation.  The state after
\* each operation (habs) is what crash images are later compared with.  That the live store showed
\* the same state and result class is checked too and reported as <<"OPDIFF", position>> (conformance
\* of the running store is C19/C20's subject; for C22 it explains a later rejected image).
Batch(ids) == [i \in 1..Len(ids) |-> D[ids[i]]]
ModelOp ==
    \/ Ev.op = "init"   /\ UNCHANGED vars
    \/ Ev.op = "insert" /\ (\A i \in DOMAIN Ev.b : Ev.b[i] \in 1..Len(D)) /\ Insert(Batch(Ev.b))
    \/ Ev.op = "remove" /\ RemoveHeight(Ev.h)
    \/ Ev.op = "mark"   /\ MarkSampled(Ev.h)
    \/ Ev.op = "meta"   /\ UpdateMeta(Ev.h, ToSetOf(Ev.cs))
LiveAgrees == /\ (Ev.res = ROk) = (res' = ROk)
              /\ KnownIds(Ev.st)
              /\ ImgOfProj(Ev.st) = Img(StateRec')
TOp ==
    /\ cp = <<>> /\ Ev.i = Len(hist)
    /\ ModelOp
    /\ ackd' = StateRec' /\ infl' = <<>>
    /\ hist' = Append(hist, Ev) /\ habs' = Append(habs, StateRec')
    /\ IF LiveAgrees THEN TRUE ELSE PrintT(<<"OPDIFF", l>>)
    /\ UNCHANGED <<plan, file, cache, txc, root, D, cp>>
TCrash ==
    /\ cp = <<>> /\ Ev.p >= hist[1].je
    /\ LET a == Acked(Ev.p) IN
       /\ ackd' = habs[a + 1]
       /\ infl' = IF InFlight(Ev.p) THEN <<habs[a + 2]>> ELSE <<>>
    /\ cp' = <<Ev>>
    /\ UNCHANGED <<vars, plan, file, cache, txc, root, D, hist, habs>>
\* the verdict on one crash image (g: the recovered tables)
RecOK(g) ==
    /\ RecoveredOK(g, ackd, infl)                          \* C22
    /\ QueriesAgree(Ev.st, g)
\* Crash images are independent of each other: a rejected one is reported (its position is printed,
\* the driver reads the REJECTED lines) and validation goes on with the next, so that one finding
\* cannot hide another in the same history.
TRecovered ==
    /\ cp # <<>>
    /\ LET readable == Ev.ok = 1 /\ KnownIds(Ev.st)          \* reopening must succeed
           g == ImgOfProj(Ev.st)
       IN IF readable /\ RecOK(g) THEN TRUE ELSE PrintT(<<"REJECTED", l>>)
    /\ UNCHANGED vars
    /\ cp' = <<>>
    /\ UNCHANGED <<ackd, infl, plan, file, cache, txc, root, D, hist, habs>>

TStep ==
    /\ l <= Len(Rec) /\ l' = l + 1
    /\ LET n == Ev.name IN
       \/ n = "reset" /\ hdr' = <<>> /\ sampled' = {} /\ pruned' = {} /\ meta' = <<>> /\ res' = ROk
                      /\ ackd' = Empty /\ infl' = <<>> /\ D' = <<>> /\ hist' = <<>> /\ habs' = <<>> /\ cp' = <<>>
                      /\ UNCHANGED <<plan, file, cache, txc, root>>
       \/ n = "hdr"   /\ Ev.d.id = Len(D) + 1 /\ D' = Append(D, Ev.d)
                      /\ UNCHANGED <<allvars, hist, habs, cp>>
       \/ n = "op"        /\ TOp
       \/ n = "crash"     /\ TCrash
       \/ n = "recovered" /\ TRecovered

TInit == CInit /\ l = 1 /\ D = <<>> /\ hist = <<>> /\ habs = <<>> /\ cp = <<>>
TSpec == TInit /\ [][TStep]_tvars

Accepted ==
    LET d == TLCGet("stats").diameter IN
    IF d - 1 = Len(Rec) THEN TRUE
    ELSE /\ PrintT(<<"REJECT-AT", d>>)
         /\ PrintT(ToJson(Rec[d]))
         /\ FALSE
=============================================================================
