---------------------------- MODULE Gen_Failover ----------------------------
(***************************************************************************)
(* spec -> impl.  Schedules of the gated replay: the harness releases one  *)
(* step at a time (start of a call, or the answer to one pending attempt)  *)
(* and lets the real client run until it blocks again.  So the internal    *)
(* steps (Load, Store, Return) of the moved call run to completion before  *)
(* the next environment step: they get priority here.  `hist` is the       *)
(* expected event sequence; one line per complete behaviour is printed     *)
(* from the invariant `Emit` at terminal states.                           *)
(***************************************************************************)
EXTENDS Failover, Json, TLC
CONSTANTS NEp, MaxConc,
          Lats     \* latency classes of an endpoint's answer relative to the call's timeout
                   \* ("fast", "below", "at", "above"); the statement has no clause about time:
                   \* the expected behaviour does not depend on them
VARIABLE hist

Ev(name, c, e, r) == [name |-> name, c |-> c, e |-> e, r |-> r, lat |-> ""]
EvL(name, c, e, r, lt) == [name |-> name, c |-> c, e |-> e, r |-> r, lat |-> lt]

Quiesce == \E c \in Calls : pc[c] \in {"load", "store", "ret"}

GenInit == AInit(NEp) /\ hist = <<>>

GenNext ==
    IF Quiesce
    THEN \E c \in Calls :
            \/ Internal(c) /\ UNCHANGED hist
            \/ Return(c) /\ hist' = Append(hist, Ev("end", c, 0, ret[c]))
    ELSE \E c \in Calls :
            \/ /\ Cardinality(Running) < MaxConc
               /\ \A d \in Calls : d < c => pc[d] # "idle"      \* calls start in id order
               /\ Start(c) /\ hist' = Append(hist, Ev("start", c, 0, ""))
            \/ \E r \in Kinds, lt \in Lats :
                    Attempt(c, r) /\ hist' = Append(hist, EvL("att", c, snap[c][idx[c]], r, lt))

Done == \A c \in Calls : pc[c] = "done"
Emit == Done => PrintT(ToJson([n |-> n, conc |-> MaxConc, timed |-> (Lats # {"fast"}), hist |-> hist]))
=============================================================================
