CONSTANT N = 200
SPECIFICATION TSpec
INVARIANT TypeOK
POSTCONDITION Accepted
CHECK_DEADLOCK FALSE
