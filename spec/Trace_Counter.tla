---------------------------- MODULE Trace_Counter ---------------------------
(* impl -> spec: a log recorded from real threads using the real Counter.  Every thread  *)
(* logs, with a sequence number drawn from one atomic counter, each schedule point it     *)
(* passes ("counter.drop.0/1/2" per guard, "counter.wait.0/1/2/3/done" for the waiter).   *)
(* RedbStore runs add "db" lines (a blocking task is using the database, logged by the      *)
(* storage backend the harness gave to redb) and "caller_cancelled" lines.                 *)
(* How a task ended (return / panic) is not in the log and makes no difference in the      *)
(* design: the configuration fixes ExitKinds = {"return"} for the hidden G1 steps.           *)
(* A log line is an assertion about where that thread stands at that instant; the steps  *)
(* themselves (and the park / wake of the waiter) are hidden and may happen anywhere      *)
(* between the lines.  The log is accepted iff SOME interleaving of the model's steps     *)
(* passes through all assertions in order.                                                *)
EXTENDS Counter, Sequences, Json, IOUtils, TLC
Rec == ndJsonDeserialize(IOEnv.TRACE)
VARIABLES l, started, wstarted   \* started: threads that have logged their first point
tvars == <<vars, l, started, wstarted>>
Ev == Rec[l]

GuardAt(p) == CASE p = "counter.drop.0" -> "held" [] p = "counter.drop.1" -> "mid" [] p = "counter.drop.2" -> "done"
WaiterAt(p) == CASE p = "counter.wait.0" -> "W0" [] p = "counter.wait.1" -> "W1" [] p = "counter.wait.2" -> "W2"
                 [] p = "counter.wait.3" -> "W3" [] p = "counter.wait.done" -> "Done"

Reset == /\ gpc' = [g \in Guards |-> IF g <= Ev.n THEN "held" ELSE "none"]
         /\ count' = Ev.n /\ wpc' = "W0" /\ epoch' = 0 /\ armed' = NotArmed
         /\ running' = 1..Ev.n /\ cancelled' = {} /\ exitk' = [g \in Guards |-> "none"]

Observe == /\ l <= Len(Rec) /\ l' = l + 1
           /\ \/ Ev.name = "reset" /\ Reset /\ started' = {} /\ wstarted' = FALSE
              \/ Ev.name = "guard"  /\ gpc[Ev.g] = GuardAt(Ev.at) /\ UNCHANGED vars
                                    /\ started' = started \cup {Ev.g} /\ UNCHANGED wstarted
              \/ Ev.name = "waiter" /\ wpc = WaiterAt(Ev.at) /\ UNCHANGED vars
                                    /\ wstarted' = TRUE /\ UNCHANGED started
              \* a blocking task touched the database: some task is running and the waiter is not through
              \/ Ev.name = "db" /\ running # {} /\ wpc # "Done" /\ UNCHANGED <<vars, started, wstarted>>
              \* the harness dropped / aborted / timed out the caller of an operation.  In the design CallerCancel(g)
              \* changes nothing the waiter or the tasks can see (only the set `cancelled`): the line itself
              \* constrains nothing, the "db" and "waiter" lines after it do
              \/ Ev.name = "caller_cancelled" /\ UNCHANGED <<vars, started, wstarted>>
           /\ TLCSet(1, IF l' > TLCGet(1) THEN l' ELSE TLCGet(1))
\* a thread cannot move before it has logged its first point (the point precedes its first step)
Hidden  == /\ l <= Len(Rec) /\ UNCHANGED <<l, started, wstarted>>
           /\ \/ wstarted /\ WNext
              \/ \E g \in started : G1(g) \/ G2(g)

TInit == /\ gpc = [g \in Guards |-> "none"] /\ count = 0 /\ wpc = "Done" /\ epoch = 0 /\ armed = NotArmed
         /\ running = {} /\ cancelled = {} /\ exitk = [g \in Guards |-> "none"]
         /\ l = 1 /\ started = {} /\ wstarted = FALSE /\ TLCSet(1, 1)
TNext == Observe \/ Hidden
TSpec == TInit /\ [][TNext]_tvars

Accepted ==
    LET d == TLCGet(1) IN
    IF d = Len(Rec) + 1 THEN TRUE
    ELSE /\ PrintT(<<"REJECT-AT", d>>)
         /\ PrintT(ToJson(Rec[d]))
         /\ FALSE
=============================================================================
