-------------------------------- MODULE MC_Daser ------------------------------
EXTENDS Daser, TLC
CONSTANTS N, W, MaxNow
Next ==
    \/ \E h \in 1..N : Insert(h, W) \/ RemoveH(h) \/ WantToPrune(h)
    \/ Connect \/ Disconnect
    \/ (now < MaxNow /\ Tick)
    \/ \E v \in {0, 2, N} : SetHiPrunable(v)
    \/ \E v \in {0, Threshold} : SetNumPrunable(v)
    \/ \E h \in 1..N : \E sh \in SUBSET AllShares(W) : Schedule(h, sh)
    \/ \E h \in 1..N : \E s \in AllShares(W) : ShareOk(h, s) \/ ShareTimeout(h, s)
    \/ \E h \in 1..N : Complete(h)

Spec == Init /\ [][Next]_dvars
\* the pruner removes only what it was allowed to (not an ongoing block): environment assumption
EnvOk == TRUE
View == <<stored, sampledS, meta, width, now, peers, phase, queue, ongoing, timedOut, promised, headH, hiPrunable, numPrunable, blk>>
=============================================================================
