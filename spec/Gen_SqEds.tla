------------------------------ MODULE Gen_SqEds ------------------------------
EXTENDS SqEds, Json
RECURSIVE SeqOfSet(_)
SeqOfSet(S) == IF S = {} THEN <<>> ELSE LET x == CHOOSE y \in S : \A z \in S : y <= z IN <<x>> \o SeqOfSet(S \ {x})
Out(k) == IF k.cls = "shape"
          THEN [cls |-> "shape", api |-> k.s.api, wd |-> k.s.wd, count |-> Count(k.s.wd, k.s.d), size |-> k.s.size,
                order |-> k.s.order, oline |-> k.s.oline, opos |-> k.s.opos, maxw |-> MaxW, demand |-> ShapeDemand(k.s), predict |-> ShapeCode(k.s)]
          ELSE [cls |-> "erasure", k |-> K, present |-> SeqOfSet(k.P), demand |-> ErasureDemand(k.P)]
GenNext == Next /\ PrintT(ToJson(Out(kase')))
=============================================================================
