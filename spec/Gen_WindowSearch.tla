--------------------------- MODULE Gen_WindowSearch --------------------------
(* spec -> impl for C36: for every stored set, cutoff and admissible previous *)
(* answer (also with the previous answer's height removed from the store)    *)
(* the set of answers the statement allows.                                  *)
EXTENDS WindowSearch, TLC, Json
CONSTANT N
VARIABLES S, c, done
Init == S \in SUBSET (1..N) /\ c \in 0..(2*N+2) /\ done = FALSE
Emit == /\ ~done /\ done' = TRUE /\ UNCHANGED <<S, c>>
        /\ PrintT(ToJson([s |-> Mask(S), c |-> c, allowed |-> SetToSeq(AllowedAns(S, c)),
                          prevs |-> SetToSeq(AdmissiblePrev(S, c, N))]))
=============================================================================
