--------------------------- MODULE Gen_BlockRanges --------------------------
(* spec -> impl: print every transition TLC generates as one JSON line.    *)
EXTENDS BlockRanges, Json, TLC
View == S
SetValued == {"headn", "tailn", "edges"}
GenNext == /\ Next
           /\ PrintT(ToJson([op |-> op'.name, s |-> Mask(S), x |-> op'.x, y |-> op'.y,
                             t |-> Mask(op'.t), post |-> Mask(S'),
                             res |-> IF op'.name \in SetValued THEN <<Mask(res')>> ELSE res']))
=============================================================================
