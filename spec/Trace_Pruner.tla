------------------------------ MODULE Trace_Pruner -----------------------------
(* impl -> spec for C35: the real Pruner over a recording store and blockstore   *)
(* with a scripted daser.  The store/blockstore state is tracked from the        *)
(* recorded calls; each remove_height must satisfy SafeRemoval.                  *)
(*   init(st)            initial store: stored/sampled/pruned ranges, meta, now  *)
(*   ongoing(h, on)      the scripted daser starts/finishes sampling h            *)
(*   want(h, granted)    want_to_prune exchange                                   *)
(*   bsremove(c)         blockstore.remove call                                   *)
(*   remove(h)           store.remove_height call                                 *)
(*   insert(h, cids) / mark(h)   environment                                      *)
EXTENDS Pruner, Json, IOUtils, TLC
Rec == ndJsonDeserialize(IOEnv.TRACE)
VARIABLE l
tvars == <<stored, sampled, pruned, meta, bstore, now, ongoingD, asked, batch, obs, l>>
Ev == Rec[l]
MetaFrom(ms) == [h \in {ms[i][1] : i \in DOMAIN ms} |->
                    LET i == CHOOSE j \in DOMAIN ms : ms[j][1] = h IN ToSet(ms[i][2])]

TStep ==
    /\ l <= Len(Rec) /\ l' = l + 1
    /\ LET n == Ev.name IN
       \/ n = "init" /\ stored' = SetOfRanges(Ev.stored) /\ sampled' = SetOfRanges(Ev.sampled)
                     /\ pruned' = SetOfRanges(Ev.pruned) /\ meta' = MetaFrom(Ev.meta)
                     /\ bstore' = ToSet(Ev.bstore) /\ now' = Ev.now /\ ongoingD' = {} /\ asked' = <<>>
                     /\ batch' = <<>> /\ obs' = NoObs
       \/ n = "ongoing" /\ ongoingD' = (IF Ev.on = 1 THEN ongoingD \cup {Ev.h} ELSE ongoingD \ {Ev.h}) /\ obs' = NoObs
                        /\ UNCHANGED <<stored, sampled, pruned, meta, bstore, now, asked, batch>>
       \/ n = "want"    /\ asked' = [h \in (DOMAIN asked) \cup {Ev.h} |-> IF h = Ev.h THEN Ev.granted = 1 ELSE asked[h]]
                        /\ obs' = NoObs /\ UNCHANGED <<stored, sampled, pruned, meta, bstore, now, ongoingD, batch>>
       \/ n = "bsremove" /\ bstore' = bstore \ {Ev.c} /\ obs' = NoObs
                         /\ UNCHANGED <<stored, sampled, pruned, meta, now, ongoingD, asked, batch>>
       \/ n = "remove"  /\ Ev.h \in stored
                        /\ batch' = <<>> /\ UNCHANGED <<now, ongoingD, asked, bstore>>
                        /\ stored' = stored \ {Ev.h} /\ sampled' = sampled \ {Ev.h} /\ pruned' = pruned \cup {Ev.h}
                        /\ meta' = [x \in (DOMAIN meta) \ {Ev.h} |-> meta[x]]
                        /\ obs' = [kind |-> "remove", h |-> Ev.h, inPrune |-> InWin(Ev.h, WPrune),
                                   inSamp |-> InWin(Ev.h, WSamp), wasSampled |-> Ev.h \in sampled,
                                   wasEdge |-> Ev.h \in Edges(Synced),
                                   \* in progress according to the daser: sampling it, or refused at the last question
                                   ongoing |-> Ev.h \in ongoingD \/ (Ev.h \in DOMAIN asked /\ ~asked[Ev.h] /\ Ev.h \notin sampled),
                                   left |-> MetaOf(Ev.h) \cap bstore]
       \/ n = "insert"  /\ InsertH(Ev.h, ToSet(Ev.cids))
       \/ n = "mark"    /\ MarkH(Ev.h)

TInit == Init /\ l = 1
TSpec == TInit /\ [][TStep]_tvars

Accepted ==
    LET d == TLCGet("stats").diameter IN
    IF d - 1 = Len(Rec) THEN TRUE
    ELSE /\ PrintT(<<"REJECT-AT", d>>)
         /\ PrintT(ToJson(Rec[d]))
         /\ FALSE
=============================================================================
