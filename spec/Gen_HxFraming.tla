---------------------------- MODULE Gen_HxFraming ---------------------------
(* spec -> impl: one line per behaviour (printed when the reader is done). *)
EXTENDS HxFraming, Json, TLC
SetToSortedSeq(S) == LET RECURSIVE Sq(_)
                         Sq(T) == IF T = {} THEN <<>>
                                  ELSE LET x == CHOOSE y \in T : \A z \in T : y <= z IN <<x>> \o Sq(T \ {x})
                     IN Sq(S)
Emit == phase = "done" =>
          PrintT(ToJson([mode |-> cfg.mode, frames |-> cfg.frames, garbage |-> cfg.garbage,
                         cuts |-> SetToSortedSeq(cfg.cuts), trunc |-> cfg.trunc, end |-> cfg.end, size |-> cfg.size,
                         must |-> Must(cfg), k |-> K(cfg), model |-> result]))
=============================================================================
