--------------------------- MODULE HxClientDecode ---------------------------
(***************************************************************************)
(* C28.  What the header-ex client may accept as the answer to a request.  *)
(*                                                                         *)
(* A response is a list of entries.  An entry is                           *)
(*   V(h)  a valid header of the requested chain at height h               *)
(*   F(h)  a valid header of a foreign chain at height h (passes           *)
(*         validation on its own; its hash differs from V(h))              *)
(*   I(h)  a header at height h that fails validation                      *)
(*   NF / INV / UNK   not-found / invalid / unknown status code            *)
(*   G     status OK with an undecodable body                              *)
(*                                                                         *)
(* Property layer: AllowedOk(req, resp) = the results (as index sequences  *)
(* into the response) the client may return with Ok:                       *)
(*   height request: non-empty, at most `amount`, every element a valid    *)
(*     header, heights start, start+1, ...; it consists of ALL entries of  *)
(*     the response up to the end or up to the first bad entry, each used  *)
(*     exactly once (duplicated heights are never acceptable)              *)
(*   hash request:   one valid header whose hash is the requested one      *)
(*   head request:   one valid header                                      *)
(* Everything else must be an error.  A response that is itself such a run *)
(* (Perfect) must be accepted.  Where the statement leaves freedom         *)
(* (reordered entries, a bad tail after a good prefix) both                *)
(* rejecting and returning an allowed result are fine: verdict "either".   *)
(* A response with more entries than the requested amount must always be   *)
(* rejected, valid headers mixed with not-found / invalid / garbage        *)
(* entries at any position included.                                       *)
(*                                                                         *)
(* Algorithmic layer: Decode(req, resp) mirrors decode_and_verify_responses*)
(* (reject empty / oversize, take the prefix of good entries, sort by      *)
(* height, check).  TLC checks Decode against the property layer.          *)
(*                                                                         *)
(* Heights live in 0..M; M stands for u64::MAX (two-block embedding).      *)
(* Header heights are small; `start` may be M-1 or M.                      *)
(***************************************************************************)
EXTENDS Naturals, Sequences, FiniteSets

CONSTANTS M, MaxLen, Requests, EntriesOf(_)

VARIABLES req, resp
vars == <<req, resp>>

V(h) == [t |-> "V", h |-> h]
F(h) == [t |-> "F", h |-> h]
I(h) == [t |-> "I", h |-> h]
NF   == [t |-> "NF", h |-> 0]
INV  == [t |-> "INV", h |-> 0]
UNK  == [t |-> "UNK", h |-> 0]
G    == [t |-> "G", h |-> 0]
Good(e) == e.t \in {"V", "F"}

HeightReq(s, a) == [kind |-> "height", start |-> s, amount |-> a, want |-> NF]
HashReq(e, a)   == [kind |-> "hash", start |-> 0, amount |-> a, want |-> e]
HeadReq(a)      == [kind |-> "height", start |-> 0, amount |-> a, want |-> NF]
NoDataReq(a)    == [kind |-> "nodata", start |-> 0, amount |-> a, want |-> NF]

ValidReq(r) ==
    /\ r.kind # "nodata" /\ r.amount # 0
    /\ (r.kind = "height" /\ r.start = 0) => r.amount = 1
    /\ r.kind = "hash" => r.amount = 1
IsHead(r) == r.kind = "height" /\ r.start = 0

(* ---- property layer ---- *)
Injective(s) == \A i, j \in 1..Len(s) : i # j => s[i] # s[j]
IdxSeqs(n) == UNION {[1..k -> 1..n] : k \in 1..n}

\* The result uses every entry of a prefix of the response exactly once (possibly reordered); the
\* prefix ends at the end of the response or right before an entry that is not a valid header
\* (a bad tail may be cut off).  So duplicates - the same header twice, or two different valid
\* headers of one height - can never be part of an accepted response, and no entry is skipped.
OkAllowed(r, rs, s) ==
    /\ Len(s) >= 1 /\ Injective(s)
    /\ \A i \in 1..Len(s) : s[i] <= Len(s)                    \* a permutation of the prefix 1..Len(s)
    /\ (Len(s) = Len(rs) \/ ~Good(rs[Len(s) + 1]))
    /\ \A i \in 1..Len(s) : Good(rs[s[i]])
    /\ IF IsHead(r) THEN Len(s) = 1
       ELSE IF r.kind = "hash" THEN Len(s) = 1 /\ rs[s[1]] = r.want
       ELSE /\ Len(s) <= r.amount
            /\ \A i \in 1..Len(s) : r.start + (i - 1) <= M /\ rs[s[i]].h = r.start + (i - 1)

\* A list longer than the requested amount is not a well-formed response, whatever the status of
\* its entries (a not-found / invalid / garbage entry before the surplus does not excuse it).
AllowedOk(r, rs) ==
    IF ~ValidReq(r) \/ Len(rs) = 0 \/ Len(rs) > r.amount THEN {}
    ELSE {s \in IdxSeqs(Len(rs)) : OkAllowed(r, rs, s)}

Identity(n) == [i \in 1..n |-> i]
Perfect(r, rs) == ValidReq(r) /\ Len(rs) >= 1 /\ OkAllowed(r, rs, Identity(Len(rs)))

Verdict(r, rs) == IF AllowedOk(r, rs) = {} THEN "reject"
                  ELSE IF Perfect(r, rs) THEN "accept" ELSE "either"

(* ---- algorithmic layer (the code as it is) ---- *)
Err == <<>>   \* an index sequence is never empty, so <<>> is the error result
GoodPrefix(rs) == CHOOSE k \in 0..Len(rs) : (\A i \in 1..k : Good(rs[i])) /\ (k = Len(rs) \/ ~Good(rs[k + 1]))
\* indices 1..k sorted by height (ties by index)
SortedIdx(rs, k) ==
    CHOOSE s \in [1..k -> 1..k] :
        /\ Injective(s)
        /\ \A i \in 1..(k - 1) : \/ rs[s[i]].h < rs[s[i + 1]].h
                                 \/ (rs[s[i]].h = rs[s[i + 1]].h /\ s[i] < s[i + 1])
Decode(r, rs) ==
    IF ~ValidReq(r) THEN Err
    ELSE IF Len(rs) = 0 \/ Len(rs) > r.amount THEN Err
    ELSE LET k == GoodPrefix(rs) IN
         IF k = 0 THEN Err
         ELSE LET s == SortedIdx(rs, k) IN
              IF IsHead(r) THEN (IF k = 1 THEN s ELSE Err)
              ELSE IF r.kind = "hash" THEN (IF k = 1 /\ rs[s[1]] = r.want THEN s ELSE Err)
              ELSE IF \A i \in 1..k : r.start + (i - 1) <= M /\ rs[s[i]].h = r.start + (i - 1) THEN s ELSE Err

Init == req \in Requests /\ resp = <<>>
Receive(e) == Len(resp) < MaxLen /\ resp' = Append(resp, e) /\ UNCHANGED req
Next == \E e \in EntriesOf(req) : Receive(e)
Spec == Init /\ [][Next]_vars

(* ---- the design satisfies the property ---- *)
DecodeSound    == Decode(req, resp) # Err => Decode(req, resp) \in AllowedOk(req, resp)
DecodeComplete == Perfect(req, resp) => Decode(req, resp) = Identity(Len(resp))
VerdictSane    == /\ Verdict(req, resp) = "accept" => Identity(Len(resp)) \in AllowedOk(req, resp)
                  /\ Verdict(req, resp) = "reject" => Decode(req, resp) = Err
=============================================================================
