----------------------------- MODULE Gen_HxClient ---------------------------
(* spec -> impl: behaviours of the algorithmic model (TLC simulation), one JSON line each:
   the initial peer sets and, per step, the environment's action with the events the model
   expects to observe.  Printed when the behaviour is over (quiescence observed or MaxSteps). *)
EXTENDS MC_HxClient, Json
CONSTANTS MaxSteps, StopAfter, MinTrustedConn
VARIABLES hist, init0
gvars == <<vars, hist, init0>>
GenInit == Init /\ Cardinality(conn \cap trusted) >= MinTrustedConn /\ hist = <<>> /\ init0 = [conn |-> SeqOf(conn), arch |-> SeqOf(arch), trusted |-> SeqOf(trusted)]
GenNext == /\ Len(hist) < MaxSteps /\ ~done
           /\ Next
           /\ (done' => asked' = Callers)     \* do not end a behaviour before every caller asked
           \* bias the random walks towards behaviours that exercise the handler
           /\ (last'.act.a = "stop" => Len(hist) >= StopAfter)
           /\ (last'.act.a = "tick" => last.act.a # "tick")
           /\ (last'.act.a = "sched" => (~SchedIdle \/ (last.act.a # "sched" /\ pending # {})))
           /\ hist' = Append(hist, [act |-> last'.act, evs |-> last'.evs,
                                    conn |-> SeqOf(conn'), arch |-> SeqOf(arch')])
           /\ UNCHANGED init0
GenView == <<avars, mon, hist>>
Over == done \/ Len(hist) = MaxSteps
Emit == Over => PrintT(ToJson([init |-> init0, steps |-> hist, bad |-> mon.bad]))
=============================================================================
