----------------------------- MODULE PoolTracker -----------------------------
(* C40: shrex `PoolTracker` (node/src/p2p/shrex/pool_tracker.rs).                        *)
(*                                                                                      *)
(* Heights are relative to a base header that is in the store when the tracker is       *)
(* created (model height 0); negative heights are headers below it (in the store from    *)
(* the start).  Until the first poll has read the store's head the subjective head is     *)
(* unknown (None) - notifications may arrive in that phase too, for any height.           *)
(* The data hash of height h is h itself (distinct hashes                                *)
(* per height, as the statement assumes); Bogus is a hash no header has.  The arrival    *)
(* of header h in the store is the environment action Arrive(h) (any order); the 120 s   *)
(* validation timeout is the environment action Advance.  Poll is one call of            *)
(* `PoolTracker::poll`: pending events first, then one finished header task.             *)
(*                                                                                      *)
(* Step observations record what the statement talks about: `owe` = the peers that     *)
(* this step obliges the tracker to block (announced another hash for a validated height *)
(* or announced twice), `blk` = the peers this step put into a BlockPeers event.         *)
(*                                                                                      *)
(* DupValidated = "block" is the design the statement asks for; "accept" is what the     *)
(* code did before the fix: a repeated announcement for an already validated height was  *)
(* added to the pool a second time instead of being blocked.                             *)
EXTENDS Integers, Sequences, FiniteSets

CONSTANTS Peers, Up, Down, Window, MaxEv, DupValidated, XHash
\* Up: heights above the base header, Down: depths below it (TLC configuration files have no negative literals)
Heights == Up \cup {0 - d : d \in Down}
\* XHash: for each height the hashes a peer may announce besides Bogus (model scope)

Bogus  == 0
None   == -1000
Hashes == Heights \cup {Bogus}
ASSUME \A h \in Heights : XHash[h] \subseteq Heights
ASSUME Bogus \notin Heights /\ None \notin Heights

VARIABLES hd,        \* subjective head (None before the first header was seen)
          pools,     \* height -> pool record
          vpk, vp,   \* validated_pools: keys present, hash -> sequence of peers
          tasks,     \* heights with an unfinished header task
          initTask,  \* the get_subjective_head task is unfinished
          arrived,   \* headers that reached the store
          expired,   \* unfinished tasks whose timeout has elapsed
          quiet,     \* last Poll returned Pending and no task was created since (all tasks have been polled)
          ev,        \* pending_events
          owe, blk, why,  \* step observations (see above; why = reason of the obligation)
          op, res
vars == <<hd, pools, vpk, vp, tasks, initTask, arrived, expired, quiet, ev, owe, blk, why, op, res>>

NoPool    == [st |-> "none", voted |-> {}, cands |-> [x \in Hashes |-> <<>>], vh |-> Bogus]
EmptyCand == [NoPool EXCEPT !.st = "cand"]
SeqSet(s) == {s[i] : i \in 1..Len(s)}
Without(s, S) == SelectSeq(s, LAMBDA q : q \notin S)
RECURSIVE Concat(_, _)
Concat(f, D) == IF D = {} THEN <<>> ELSE LET x == CHOOSE x \in D : TRUE IN f[x] \o Concat(f, D \ {x})
RECURSIVE SetSeq(_)
SetSeq(S) == IF S = {} THEN <<>> ELSE LET x == CHOOSE x \in S : TRUE IN <<x>> \o SetSeq(S \ {x})
Thr(h) == h - Window                               \* stale_height_threshold (base >= Window: no saturation)
Stale(h) == hd # None /\ h <= Thr(hd)

Init == /\ hd = None /\ pools = [h \in Heights |-> NoPool] /\ vpk = {} /\ vp = [x \in Hashes |-> <<>>]
        /\ tasks = {} /\ initTask = TRUE /\ arrived = {h \in Heights : h <= 0} /\ expired = {} /\ quiet = FALSE /\ ev = <<>>
        /\ owe = {} /\ blk = {} /\ why = ""
        /\ op = [a |-> "init", p |-> 0, x |-> 0, h |-> 0] /\ res = <<"none">>

Op(a, p, x, h) == op' = [a |-> a, p |-> p, x |-> x, h |-> h]
Blk(S) == [k |-> "block", ps |-> S]
Add(s) == [k |-> "add", ps |-> SeqSet(s)]

\* remove_peer for a set of peers
Removed(PL, S) == [h \in Heights |-> IF PL[h].st = "cand"
                     THEN [PL[h] EXCEPT !.voted = @ \ S, !.cands = [x \in Hashes |-> Without(@[x], S)]]
                     ELSE PL[h]]

\* ---- add_peer_for_hash
Announce(p, x, h) ==
    /\ Len(ev) < MaxEv
    /\ Op("announce", p, x, h) /\ res' = <<"none">>
    /\ why' = (IF hd = None \/ Stale(h) THEN ""
               ELSE IF pools[h].st = "cand" /\ p \in pools[h].voted THEN "duplicate-candidate"
               ELSE IF pools[h].st = "val" /\ p \in SeqSet(vp[pools[h].vh]) THEN "duplicate-validated"
               ELSE IF pools[h].st = "val" /\ pools[h].vh # x THEN "wrong-hash-validated" ELSE "")
    /\ UNCHANGED <<hd, initTask, arrived>>
    /\ IF hd = None \/ Stale(h)
       THEN /\ UNCHANGED <<pools, vpk, vp, tasks, expired, quiet, ev>> /\ owe' = {} /\ blk' = {}
       ELSE LET new == pools[h].st = "none"
                pl  == IF new THEN EmptyCand ELSE pools[h] IN
            /\ tasks' = IF new THEN tasks \cup {h} ELSE tasks
            /\ expired' = IF new THEN expired \ {h} ELSE expired
            /\ quiet' = IF new THEN FALSE ELSE quiet
            /\ IF pl.st = "cand"
               THEN IF p \in pl.voted
                    THEN /\ ev' = Append(ev, Blk({p})) /\ pools' = [pools EXCEPT ![h] = pl]       \* duplicate vote
                         /\ owe' = {p} /\ blk' = {p}
                         /\ UNCHANGED <<vpk, vp>>
                    ELSE /\ pools' = [pools EXCEPT ![h] = [pl EXCEPT !.voted = @ \cup {p}, !.cands[x] = Append(@, p)]]
                         /\ UNCHANGED <<vpk, vp, ev>> /\ owe' = {} /\ blk' = {}
               ELSE \* validated
                    LET dup == p \in SeqSet(vp[pl.vh]) IN
                    /\ UNCHANGED <<pools, vpk>>
                    /\ IF pl.vh = x /\ ~(dup /\ DupValidated = "block")
                       THEN /\ vp' = [vp EXCEPT ![x] = Append(@, p)] /\ ev' = Append(ev, Add(<<p>>))
                            /\ owe' = (IF dup THEN {p} ELSE {}) /\ blk' = {}
                       ELSE /\ ev' = Append(ev, Blk({p})) /\ owe' = {p} /\ blk' = {p}
                            /\ UNCHANGED vp

\* ---- remove_peer (the peer disconnected)
RemovePeer(p) ==
    /\ Op("remove_peer", p, 0, 0) /\ res' = <<"none">> /\ why' = ""
    /\ pools' = Removed(pools, {p}) /\ vp' = [x \in Hashes |-> Without(vp[x], {p})]
    /\ UNCHANGED <<hd, vpk, tasks, initTask, arrived, expired, quiet, ev>> /\ owe' = {} /\ blk' = {}

\* ---- environment
Arrive(h) == /\ h \notin arrived /\ arrived' = arrived \cup {h}
             /\ Op("arrive", 0, 0, h) /\ res' = <<"none">> /\ why' = ""
             /\ UNCHANGED <<hd, pools, vpk, vp, tasks, initTask, expired, quiet, ev>> /\ owe' = {} /\ blk' = {}
Advance   == /\ quiet /\ expired' = tasks         \* every started task is past its deadline
             /\ Op("advance", 0, 0, 0) /\ res' = <<"none">> /\ why' = ""
             /\ UNCHANGED <<hd, pools, vpk, vp, tasks, initTask, arrived, quiet, ev>> /\ owe' = {} /\ blk' = {}

\* ---- poll
PopEvent ==
    LET e == Head(ev) IN
    /\ ev' = Tail(ev) /\ res' = <<e.k, e.ps>>
    /\ IF e.k = "block" THEN /\ pools' = Removed(pools, e.ps) /\ vp' = [x \in Hashes |-> Without(vp[x], e.ps)]
                        ELSE UNCHANGED <<pools, vp>>
    /\ UNCHANGED <<hd, vpk, tasks, initTask, arrived, expired, quiet>> /\ owe' = {} /\ blk' = {}

InitDone ==    \* get_subjective_head: the store holds the base header only
    /\ initTask' = FALSE /\ hd' = 0 /\ res' = <<"progress">>
    /\ UNCHANGED <<pools, vpk, vp, tasks, arrived, expired, quiet, ev>> /\ owe' = {} /\ blk' = {}

\* try_update_subjective_head(h) then validate_pool(hash(h), h)
HeaderDone(h, SS) ==
    LET up      == hd = None \/ h > hd
        evict   == IF hd # None /\ h > hd THEN {k \in Heights : Thr(hd) <= k /\ k <= Thr(h)} ELSE {}
        pl1     == [k \in Heights |-> IF k \in evict THEN NoPool ELSE pools[k]]
        vpk1    == vpk \ {pools[k].vh : k \in {k \in evict : pools[k].st = "val"}}
        good    == pl1[h].cands[h]
        badset  == UNION {SeqSet(pl1[h].cands[x]) : x \in Hashes \ {h}}
    IN
    /\ hd' = IF up THEN h ELSE hd
    /\ tasks' = (tasks \ SS) \ {h} /\ expired' = (expired \ SS) \ {h} /\ res' = <<"progress">>
    /\ IF pl1[h].st = "cand"
       THEN /\ pools' = [pl1 EXCEPT ![h] = [NoPool EXCEPT !.st = "val", !.vh = h]]
            /\ vp' = [vp EXCEPT ![h] = good] /\ vpk' = vpk1 \cup {h}
            /\ ev' = ev \o (IF good # <<>> THEN <<Add(good)>> ELSE <<>>) \o (IF badset # {} THEN <<Blk(badset)>> ELSE <<>>)
            /\ owe' = badset /\ blk' = badset
       ELSE /\ pools' = pl1 /\ vpk' = vpk1 /\ UNCHANGED <<vp, ev>> /\ owe' = {} /\ blk' = {}
    /\ UNCHANGED <<initTask, arrived, quiet>>

\* a timed-out task: the pool is dropped; its voters are blocked (the event is returned by the same poll call)
TimeoutDone(h, SS) ==
    LET S == pools[h].voted IN
    /\ tasks' = (tasks \ SS) \ {h} /\ expired' = (expired \ SS) \ {h}
    /\ res' = <<"block", S>> /\ blk' = S
    /\ pools' = Removed([pools EXCEPT ![h] = NoPool], S) /\ vp' = [x \in Hashes |-> Without(vp[x], S)]
    /\ UNCHANGED <<hd, vpk, initTask, arrived, quiet, ev>> /\ owe' = {}

Ready  == {h \in tasks : h \in arrived \/ h \in expired}
\* a timed-out task whose pool is gone (evicted meanwhile): the code just continues its loop
Silent == {h \in Ready : h \notin arrived /\ pools[h].st # "cand"}
Poll == /\ Op("poll", 0, 0, 0)
        /\ IF ev # <<>> THEN PopEvent
           ELSE IF initTask THEN InitDone
           ELSE \E SS \in SUBSET Silent :        \* the silent ones FuturesUnordered happened to yield first
                  IF Ready \ SS = {}
                  THEN /\ res' = <<"pending">> /\ quiet' = TRUE
                       /\ tasks' = tasks \ SS /\ expired' = expired \ SS
                       /\ UNCHANGED <<hd, pools, vpk, vp, initTask, arrived, ev>> /\ owe' = {} /\ blk' = {}
                  ELSE \E h \in (Ready \ Silent) : IF h \in arrived THEN HeaderDone(h, SS) ELSE TimeoutDone(h, SS)
        /\ why' = (IF owe' # {} THEN "wrong-hash-at-validation" ELSE "")

Next == \/ \E p \in Peers, h \in Heights : \E x \in XHash[h] \cup {Bogus} : Announce(p, x, h)
        \/ \E p \in Peers : RemovePeer(p)
        \/ \E h \in Heights : Arrive(h)
        \/ Advance
        \/ Poll
Spec == Init /\ [][Next]_vars

----------------------------------------------------------------------------
\* what get_pool(h) answers; "panic" = the expect("must exist if hash_pool exists") would fire
Query(h) == IF pools[h].st = "val" THEN (IF pools[h].vh \in vpk THEN <<"peers", vp[pools[h].vh]>> ELSE <<"panic">>)
            ELSE IF pools[h].st = "cand" THEN <<"not-validated">>
            ELSE IF Stale(h) THEN <<"too-old">> ELSE <<"not-tracked">>

\* C40
\* (1) a peer is offered for h only if it announced the data hash of h: peers enter the validated pool of h
\*     either with an announcement (p, hash(h), h) or from the candidates of hash(h), which only such
\*     announcements fill
AnnouncedRight(p, h) == op'.a = "announce" /\ op'.p = p /\ op'.x = h /\ op'.h = h
OfferedAnnounced == [][\A h \in Heights :
                        /\ pools'[h].st = "val" => pools'[h].vh = h
                        /\ \A p \in SeqSet(vp'[h]) \ SeqSet(vp[h]) : AnnouncedRight(p, h) \/ p \in SeqSet(pools[h].cands[h])
                        /\ \A p \in SeqSet(pools'[h].cands[h]) \ SeqSet(pools[h].cands[h]) : AnnouncedRight(p, h)]_vars
\* (2) whoever must be blocked is put into a BlockPeers event in the same step
OwedBlocked      == [][owe' \subseteq blk']_vars
\* (3), (4)
OldDropped       == hd # None => \A h \in Heights : h < Thr(hd) => pools[h].st = "none"
NoPanic          == \A h \in Heights : Query(h) # <<"panic">>
\* the code is stricter than the statement: pools at head - Window are dropped too
OldDroppedAtTen  == hd # None => \A h \in Heights : h <= Thr(hd) => pools[h].st = "none"
\* structure
TaskShape == /\ \A h \in Heights : pools[h].st = "cand" => h \in tasks
             /\ \A h \in Heights : pools[h].st = "val" => h \notin tasks
             /\ initTask => hd = None
=============================================================================
