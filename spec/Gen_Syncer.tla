------------------------------- MODULE Gen_Syncer ------------------------------
(* spec -> impl for C25 / C38 / C24: TLC (simulation) walks Syncer.tla with the   *)
(* clock fixed at N (the chain exists, the node learns about its head step by     *)
(* step) and prints the ENVIRONMENT's part of each walk as one JSON line.  The    *)
(* harness performs those environment steps on the real Syncer (which takes its   *)
(* own steps by itself); the recorded run is then judged by Trace_Syncer.         *)
EXTENDS Syncer, TLC, Json
CONSTANT D
VARIABLE hist
gvars == <<stored, pruned, foreign, sampled, now, netHead, peers, trusted, phase, subj, ongoing, hsub, sawPeer, slowH, lastFetch, hist>>

EnvStep(a) == hist' = Append(hist, a)
Own    == UNCHANGED hist

\* the node hears of a higher head: netHead grows, the clock does not move
Learn == /\ netHead < N /\ netHead' = netHead + 1
         /\ UNCHANGED <<stored, pruned, foreign, sampled, now, peers, trusted, phase, subj, ongoing, hsub, sawPeer, slowH, lastFetch>>

GInit == /\ Init /\ hist = <<>>
GInit2 == /\ stored = {} /\ pruned = {} /\ foreign = {} /\ sampled = {} /\ now = N /\ netHead \in {N - 3, N - 1}
          /\ peers = 0 /\ trusted = FALSE /\ phase = "connecting" /\ subj = 0 /\ ongoing = <<>> /\ hsub = FALSE
          /\ sawPeer = FALSE /\ slowH = 0 /\ lastFetch = NoFetch /\ hist = <<[a |-> "start", h |-> netHead]>>

GNext ==
    /\ Len(hist) < D
    /\ \/ Learn /\ EnvStep([a |-> "newblock", h |-> netHead + 1])
       \/ Connect /\ EnvStep([a |-> "connect", h |-> 0])
       \/ Disconnect /\ EnvStep([a |-> "disconnect", h |-> 0])
       \/ PlainJoin /\ EnvStep([a |-> "plainjoin", h |-> 0])
       \/ TrustedLeave /\ EnvStep([a |-> "trustedleave", h |-> 0])
       \/ HeaderSub /\ EnvStep([a |-> "headsub", h |-> netHead])
       \/ BatchOk /\ EnvStep([a |-> "batch_ok", h |-> 0])
       \/ (EnableForeign /\ BatchForeign /\ EnvStep([a |-> "batch_foreign", h |-> 0]))
       \/ BatchFail /\ EnvStep([a |-> "batch_fail", h |-> 0])
       \/ (EnablePrune /\ \E h \in 1..N : Prune(h) /\ EnvStep([a |-> "prune", h |-> h]))
       \/ (EnablePrune /\ \E h \in 1..N : MarkSampled(h) /\ EnvStep([a |-> "mark", h |-> h]))
       \/ TryInit /\ Own
       \/ FetchNext /\ Own
Emit == Len(hist) = D => PrintT(ToJson([ops |-> hist]))
=============================================================================
