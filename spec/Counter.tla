------------------------------- MODULE Counter -------------------------------
(* C41: `Counter::wait_guards` / `CounterGuard::drop` (node/src/utils/counter.rs).      *)
(*                                                                                      *)
(*   drop:        self.counter.take();               -- G1: count := count - 1          *)
(*                self.notify.notify_waiters();      -- G2: epoch := epoch + 1, wake    *)
(*   wait_guards: notified = notify.notified();      -- W0: armed := epoch              *)
(*                while strong_count > 1 {           -- W1: read count                  *)
(*                    notified.await;                -- W2: poll; ready iff epoch>armed *)
(*                                                      else park (P) until a G2        *)
(*                    notified.set(notify.notified())-- W3: armed := epoch              *)
(*                }                                                                     *)
(* A `Notified` future is modelled by the notify_waiters epoch it captured when it was  *)
(* created (tokio documents that a `Notified` receives every `notify_waiters` issued    *)
(* after its creation, polled or not).                                                  *)
(*                                                                                      *)
(* Each guard belongs to a blocking task (RedbStore: the spawn_blocking closure of read_tx / *)
(* write_tx owns it); `running` = tasks whose blocking work is still in flight.  The task's  *)
(* caller (the async fn awaiting the JoinHandle) may go away at any time - timeout, select!, *)
(* aborted worker - which is CallerCancel(g): it must not release the count, the task goes   *)
(* on.  C41 is about the tasks: the waiter may get through only when none is running.        *)
(*                                                                                      *)
(* A task leaves by return or by panic (exitk, chosen when its work ends): the guard is    *)
(* dropped on either path - during a panic by the unwinding - and must release AND wake.   *)
(*                                                                                      *)
(* Deviation selects deliberately wrong designs (used to show the checks are not        *)
(* vacuous): "swap_drop" notifies before releasing the count, "arm_after_check" creates *)
(* the `Notified` only after reading the count, "guard_in_caller" lets the caller own the  *)
(* guard so that cancelling the caller releases the count while the task still runs,      *)
(* "no_wake_on_panic" releases the count but skips notify_waiters when the guard is dropped *)
(* by a panic unwind.                                                                     *)
EXTENDS Naturals, FiniteSets

CONSTANTS N,            \* number of guards
          LateGuards,   \* TRUE: guards may also be created while the waiter is running
          Deviation,    \* "none" | "swap_drop" | "arm_after_check" | "guard_in_caller" | "no_wake_on_panic"
          ExitKinds     \* how a task may end: subset of {"return", "panic"}

VARIABLES gpc,    \* guard -> "none" (not created) | "held" | "mid" (between its two steps) | "done"
          wpc,    \* waiter: "W0" | "W1" | "W2" | "P" (parked) | "W3" | "Done"
          count,  \* strong_count - 1
          epoch,  \* number of notify_waiters calls so far
          armed,  \* epoch captured by the waiter's current Notified future (-1 coded as 0 with flag)
          running,   \* guards whose task's blocking work is in flight
          cancelled, \* guards whose caller has gone away
          exitk      \* guard -> "none" | "return" | "panic": how its task ended

vars == <<gpc, wpc, count, epoch, armed, running, cancelled, exitk>>
Guards == 1..N
NotArmed == 1000000   \* "no Notified future yet": never below epoch

TypeOK == /\ gpc \in [Guards -> {"none", "held", "mid", "done"}]
          /\ wpc \in {"W0", "W1", "W2", "P", "W3", "Done"}
          /\ count \in 0..N /\ epoch \in 0..N /\ armed \in (0..N) \cup {NotArmed}
          /\ running \subseteq Guards /\ cancelled \subseteq Guards
          /\ exitk \in [Guards -> {"none", "return", "panic"}]

Init == /\ gpc \in IF LateGuards THEN [Guards -> {"none", "held"}] ELSE {[g \in Guards |-> "held"]}
        /\ count = Cardinality({g \in Guards : gpc[g] = "held"})
        /\ wpc = "W0" /\ epoch = 0 /\ armed = NotArmed
        /\ running = {g \in Guards : gpc[g] = "held"} /\ cancelled = {} /\ exitk = [g \in Guards |-> "none"]

\* effect of the two primitive guard operations
Release == count' = count - 1 /\ UNCHANGED <<epoch, wpc>>
Wake    == epoch' = epoch + 1 /\ wpc' = (IF wpc = "P" THEN "W2" ELSE wpc) /\ UNCHANGED count

Create(g) == /\ LateGuards /\ gpc[g] = "none" /\ wpc # "Done"
             /\ gpc' = [gpc EXCEPT ![g] = "held"] /\ count' = count + 1
             /\ running' = running \cup {g}
             /\ UNCHANGED <<wpc, epoch, armed, cancelled, exitk>>
\* the task's blocking work is over - it returns or it panics - and its guard starts to drop
G1k(g, k) ==
    /\ gpc[g] = "held" /\ gpc' = [gpc EXCEPT ![g] = "mid"]
    /\ IF Deviation = "swap_drop" THEN Wake ELSE Release
    /\ running' = running \ {g} /\ exitk' = [exitk EXCEPT ![g] = k]
    /\ UNCHANGED <<armed, cancelled>>
G1(g) == \E k \in ExitKinds : G1k(g, k)
G2(g) == /\ gpc[g] = "mid" /\ gpc' = [gpc EXCEPT ![g] = "done"]
         /\ IF Deviation = "swap_drop" THEN Release
            ELSE IF Deviation = "no_wake_on_panic" /\ exitk[g] = "panic" THEN UNCHANGED <<count, epoch, wpc>>
            ELSE Wake
         /\ UNCHANGED <<armed, running, cancelled, exitk>>
\* the caller's future is dropped while its task may still be running: nothing may change for the waiter
CallerCancel(g) ==
    /\ gpc[g] # "none" /\ g \notin cancelled /\ cancelled' = cancelled \cup {g}
    /\ IF Deviation = "guard_in_caller" /\ gpc[g] = "held"
       THEN /\ gpc' = [gpc EXCEPT ![g] = "mid"] /\ Release          \* the guard dies with the caller, the task runs on
       ELSE UNCHANGED <<gpc, count, epoch, wpc>>
    /\ UNCHANGED <<armed, running, exitk>>
\* (guard_in_caller only) the orphaned task ends
TaskEnd(g) == /\ Deviation = "guard_in_caller" /\ g \in running /\ gpc[g] # "held"
              /\ running' = running \ {g} /\ UNCHANGED <<gpc, wpc, count, epoch, armed, cancelled, exitk>>

W0 == /\ wpc = "W0" /\ wpc' = "W1"
      /\ armed' = (IF Deviation = "arm_after_check" THEN armed ELSE epoch)
      /\ UNCHANGED <<gpc, count, epoch, running, cancelled, exitk>>
W1 == /\ wpc = "W1" /\ wpc' = (IF count > 0 THEN "W2" ELSE "Done")
      /\ UNCHANGED <<gpc, count, epoch, armed, running, cancelled, exitk>>
W2 == /\ wpc = "W2"
      /\ IF Deviation = "arm_after_check" /\ armed = NotArmed
            THEN armed' = epoch /\ wpc' = "P"            \* future created here: nothing to receive yet
            ELSE /\ wpc' = (IF epoch > armed THEN "W3" ELSE "P")
                 /\ UNCHANGED armed
      /\ UNCHANGED <<gpc, count, epoch, running, cancelled, exitk>>
W3 == /\ wpc = "W3" /\ wpc' = "W1"
      /\ armed' = (IF Deviation = "arm_after_check" THEN NotArmed ELSE epoch)
      /\ UNCHANGED <<gpc, count, epoch, running, cancelled, exitk>>

WNext == W0 \/ W1 \/ W2 \/ W3
GNext == \E g \in Guards : Create(g) \/ G1(g) \/ G2(g) \/ CallerCancel(g) \/ TaskEnd(g)
Next  == WNext \/ GNext

\* the waiter is scheduled fairly; guards owe nothing (a task may run for ever)
Spec == Init /\ [][Next]_vars /\ WF_vars(WNext)

----------------------------------------------------------------------------
\* C41, first half: close returns only after every task (guard) has released its count
Dropped(g) == gpc[g] \in {"none", "mid", "done"}
Safety == wpc = "Done" => (running = {} /\ \A g \in Guards : gpc[g] # "held")
\* ... in the unswapped design the count tells exactly how many guards are still held
CountIsHeld == Deviation = "none" => count = Cardinality({g \in Guards : gpc[g] = "held"})
\* a parked waiter has a future that has seen every notification so far
ParkedArmed == wpc = "P" => armed = epoch
\* C41, second half: once every guard finished dropping (for good), the waiter finishes
AllDone == running = {} /\ \A g \in Guards : gpc[g] \in {"none", "done"}
Live == <>[]AllDone => <>(wpc = "Done")
=============================================================================
