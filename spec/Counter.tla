------------------------------- MODULE Counter -------------------------------
(* C41: `Counter::wait_guards` / `CounterGuard::drop` (node/src/utils/counter.rs).      *)
(*                                                                                      *)
(*   drop:        self.counter.take();               -- G1: count := count - 1          *)
(*                self.notify.notify_waiters();      -- G2: epoch := epoch + 1, wake    *)
(*   wait_guards: notified = notify.notified();      -- W0: armed := epoch              *)
(*                while strong_count > 1 {           -- W1: read count                  *)
(*                    notified.await;                -- W2: poll; ready iff epoch>armed *)
(*                                                      else park (P) until a G2        *)
(*                    notified.set(notify.notified())-- W3: armed := epoch              *)
(*                }                                                                     *)
(* A `Notified` future is modelled by the notify_waiters epoch it captured when it was  *)
(* created (tokio documents that a `Notified` receives every `notify_waiters` issued    *)
(* after its creation, polled or not).                                                  *)
(*                                                                                      *)
(* Deviation selects deliberately wrong designs (used to show the checks are not        *)
(* vacuous): "swap_drop" notifies before releasing the count, "arm_after_check" creates *)
(* the `Notified` only after reading the count.                                         *)
EXTENDS Naturals, FiniteSets

CONSTANTS N,            \* number of guards
          LateGuards,   \* TRUE: guards may also be created while the waiter is running
          Deviation     \* "none" | "swap_drop" | "arm_after_check"

VARIABLES gpc,    \* guard -> "none" (not created) | "held" | "mid" (between its two steps) | "done"
          wpc,    \* waiter: "W0" | "W1" | "W2" | "P" (parked) | "W3" | "Done"
          count,  \* strong_count - 1
          epoch,  \* number of notify_waiters calls so far
          armed   \* epoch captured by the waiter's current Notified future (-1 coded as 0 with flag)

vars == <<gpc, wpc, count, epoch, armed>>
Guards == 1..N
NotArmed == 1000000   \* "no Notified future yet": never below epoch

TypeOK == /\ gpc \in [Guards -> {"none", "held", "mid", "done"}]
          /\ wpc \in {"W0", "W1", "W2", "P", "W3", "Done"}
          /\ count \in 0..N /\ epoch \in 0..N /\ armed \in (0..N) \cup {NotArmed}

Init == /\ gpc \in IF LateGuards THEN [Guards -> {"none", "held"}] ELSE {[g \in Guards |-> "held"]}
        /\ count = Cardinality({g \in Guards : gpc[g] = "held"})
        /\ wpc = "W0" /\ epoch = 0 /\ armed = NotArmed

\* effect of the two primitive guard operations
Release == count' = count - 1 /\ UNCHANGED <<epoch, wpc>>
Wake    == epoch' = epoch + 1 /\ wpc' = (IF wpc = "P" THEN "W2" ELSE wpc) /\ UNCHANGED count

Create(g) == /\ LateGuards /\ gpc[g] = "none" /\ wpc # "Done"
             /\ gpc' = [gpc EXCEPT ![g] = "held"] /\ count' = count + 1
             /\ UNCHANGED <<wpc, epoch, armed>>
G1(g) == /\ gpc[g] = "held" /\ gpc' = [gpc EXCEPT ![g] = "mid"]
         /\ IF Deviation = "swap_drop" THEN Wake ELSE Release
         /\ UNCHANGED armed
G2(g) == /\ gpc[g] = "mid" /\ gpc' = [gpc EXCEPT ![g] = "done"]
         /\ IF Deviation = "swap_drop" THEN Release ELSE Wake
         /\ UNCHANGED armed

W0 == /\ wpc = "W0" /\ wpc' = "W1"
      /\ armed' = (IF Deviation = "arm_after_check" THEN armed ELSE epoch)
      /\ UNCHANGED <<gpc, count, epoch>>
W1 == /\ wpc = "W1" /\ wpc' = (IF count > 0 THEN "W2" ELSE "Done")
      /\ UNCHANGED <<gpc, count, epoch, armed>>
W2 == /\ wpc = "W2"
      /\ IF Deviation = "arm_after_check" /\ armed = NotArmed
            THEN armed' = epoch /\ wpc' = "P"            \* future created here: nothing to receive yet
            ELSE /\ wpc' = (IF epoch > armed THEN "W3" ELSE "P")
                 /\ UNCHANGED armed
      /\ UNCHANGED <<gpc, count, epoch>>
W3 == /\ wpc = "W3" /\ wpc' = "W1"
      /\ armed' = (IF Deviation = "arm_after_check" THEN NotArmed ELSE epoch)
      /\ UNCHANGED <<gpc, count, epoch>>

WNext == W0 \/ W1 \/ W2 \/ W3
GNext == \E g \in Guards : Create(g) \/ G1(g) \/ G2(g)
Next  == WNext \/ GNext

\* the waiter is scheduled fairly; guards owe nothing (a task may run for ever)
Spec == Init /\ [][Next]_vars /\ WF_vars(WNext)

----------------------------------------------------------------------------
\* C41, first half: close returns only after every task (guard) has released its count
Dropped(g) == gpc[g] \in {"none", "mid", "done"}
Safety == wpc = "Done" => \A g \in Guards : gpc[g] # "held"
\* ... in the unswapped design the count tells exactly how many guards are still held
CountIsHeld == Deviation = "none" => count = Cardinality({g \in Guards : gpc[g] = "held"})
\* a parked waiter has a future that has seen every notification so far
ParkedArmed == wpc = "P" => armed = epoch
\* C41, second half: once every guard finished dropping (for good), the waiter finishes
AllDone == \A g \in Guards : gpc[g] \in {"none", "done"}
Live == <>[]AllDone => <>(wpc = "Done")
=============================================================================
