------------------------- MODULE MC_HxClientDecode -------------------------
EXTENDS HxClientDecode, TLC
CONSTANT Base   \* the height around which header entries are taken

MCRequests ==
    {HeightReq(s, a) : s \in {Base, M - 1, M}, a \in {1, 2, 3, M}}
    \cup {HashReq(V(Base), 1), HashReq(F(Base), 1), HeadReq(1)}
    \cup {HeightReq(Base, 0), HeadReq(2), HashReq(V(Base), 2), HashReq(V(Base), 0), NoDataReq(1)}

\* entries offered for a request: headers around Base, and every non-header entry
MCEntries(r) ==
    {V(h) : h \in (Base - 1)..(Base + 2)} \cup {F(Base), F(Base + 1)} \cup {I(Base), I(Base + 1)}
    \cup {NF, INV, UNK, G}
=============================================================================
