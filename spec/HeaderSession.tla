----------------------------- MODULE HeaderSession ---------------------------
(***************************************************************************)
(* C26 / C27.  node/src/p2p/header_session.rs.                             *)
(*                                                                         *)
(* A session fetches the heights Lo..Lo+L-1.  It keeps at most MaxConc     *)
(* sub-requests outstanding; batches of BatchSize(L) heights are taken     *)
(* from the TOP of the not yet requested part; a response that is a        *)
(* shorter prefix re-requests the remainder, a header-ex error re-requests *)
(* the same sub-range, any other error aborts the session.                 *)
(*                                                                         *)
(* Variables                                                               *)
(*   rem   - number of heights not yet requested (always Lo..Lo+rem-1)     *)
(*   out   - outstanding requests, records [h, amt]                        *)
(*   recv  - heights received so far                                       *)
(*   spans - received non-empty spans <<h, k>> (for the result order)      *)
(*   st    - "init" | "run" | "done" | "failed"                            *)
(***************************************************************************)
EXTENDS Naturals, FiniteSets, Sequences, Ranges

CONSTANTS MinAmt, MaxAmt, MaxConc     \* 8, 64, 8 in the implementation

VARIABLES Lo, L, rem, out, recv, spans, st, issued
vars == <<Lo, L, rem, out, recv, spans, st, issued>>

CeilDiv(a, b) == (a + b - 1) \div b
Clamp(x, lo, hi) == IF x < lo THEN lo ELSE IF x > hi THEN hi ELSE x
BatchSize(len) == Clamp(CeilDiv(len, MaxConc), MinAmt, MaxAmt)

Wanted == Lo..(Lo + L - 1)
Req(h, a) == [h |-> h, amt |-> a]
Span(r) == r.h..(r.h + r.amt - 1)

\* take_next_batch: the top `BatchSize` heights of the not yet requested prefix
\* (the whole remainder when it is not longer than the batch size -- also when it is empty)
NextBatch(r) == LET b == BatchSize(L) IN
                IF r <= b THEN <<Req(Lo, r), 0>>
                ELSE <<Req(Lo + r - b, b), r - b>>

\* issue up to n next batches, one after the other (rem = "none left" is encoded as st field)
RECURSIVE IssueN(_, _, _, _)
IssueN(n, r, more, acc) ==   \* more: TRUE while to_fetch is Some(..)
    IF n = 0 \/ ~more THEN <<acc, r, more>>
    ELSE LET nb == NextBatch(r) IN
         IssueN(n - 1, nb[2], nb[2] > 0 /\ r > BatchSize(L), acc \cup {nb[1]})

VARIABLE more        \* to_fetch is Some(_)
allvars == <<Lo, L, rem, out, recv, spans, st, issued, more>>

Init0(lo, len) ==
    /\ Lo = lo /\ L = len /\ rem = len /\ out = {} /\ recv = {} /\ spans = {} /\ st = "init"
    /\ issued = {} /\ more = TRUE

\* a new session (used by trace validation: many sessions in one trace)
Reset(lo, len) ==
    /\ Lo' = lo /\ L' = len /\ rem' = len /\ out' = {} /\ recv' = {} /\ spans' = {} /\ st' = "init"
    /\ issued' = {} /\ more' = TRUE

\* HeaderSession::run, the initial MAX_CONCURRENT_REQS send_next_request calls
Start ==
    /\ st = "init"
    /\ LET res == IssueN(MaxConc, rem, more, {}) IN
       /\ out' = res[1] /\ rem' = res[2] /\ more' = res[3]
       /\ issued' = issued \cup res[1]
    /\ st' = "run"
    /\ UNCHANGED <<Lo, L, recv, spans>>

\* a response carrying the first k headers of request r
Respond(r, k) ==
    /\ st = "run" /\ r \in out /\ k \in 0..r.amt
    /\ recv' = recv \cup (r.h..(r.h + k - 1))
    /\ spans' = IF k > 0 THEN spans \cup {<<r.h, k>>} ELSE spans
    /\ IF k < r.amt
       THEN LET nr == Req(r.h + k, r.amt - k) IN
            /\ out' = (out \ {r}) \cup {nr} /\ issued' = issued \cup {nr}
            /\ UNCHANGED <<rem, more>>
       ELSE LET res == IssueN(1, rem, more, {}) IN
            /\ out' = (out \ {r}) \cup res[1] /\ issued' = issued \cup res[1]
            /\ rem' = res[2] /\ more' = res[3]
    /\ UNCHANGED <<Lo, L, st>>

\* a header-ex error: the same sub-range is requested again
RespondHxErr(r) ==
    /\ st = "run" /\ r \in out
    /\ UNCHANGED allvars

\* any other error aborts the session
RespondFatal(r) ==
    /\ st = "run" /\ r \in out
    /\ st' = "failed" /\ out' = {}
    /\ UNCHANGED <<Lo, L, rem, recv, spans, issued, more>>

Finish ==
    /\ st = "run" /\ out = {}
    /\ st' = "done"
    /\ UNCHANGED <<Lo, L, rem, out, recv, spans, issued, more>>

Next == \/ Start
        \/ Finish
        \/ \E r \in out : \E k \in 0..r.amt : Respond(r, k)
        \/ \E r \in out : RespondHxErr(r)
        \/ \E r \in out : RespondFatal(r)

(* ---- C26: the monitor ---- *)
\* every request is a non-empty sub-range of not-yet-received wanted heights of at most MaxAmt
RequestsOk == \A r \in out : /\ r.amt >= 1 /\ r.amt <= MaxAmt
                             /\ Span(r) \subseteq (Wanted \ recv)
\* outstanding requests never overlap and never exceed the concurrency bound
OutDisjoint == /\ \A r1, r2 \in out : r1 # r2 => Span(r1) \cap Span(r2) = {}
               /\ Cardinality(out) <= MaxConc
\* a completed session has received exactly the wanted heights, each once
DoneComplete == st = "done" => /\ recv = Wanted
                               /\ \A s1, s2 \in spans : s1 # s2 =>
                                     (s1[1]..(s1[1]+s1[2]-1)) \cap (s2[1]..(s2[1]+s2[2]-1)) = {}
\* nothing wanted is forgotten while running
NothingLost == st = "run" =>
    Wanted = recv \cup UNION {Span(r) : r \in out} \cup (IF more THEN Lo..(Lo + rem - 1) ELSE {})
=============================================================================
