--------------------------- MODULE Gen_PeerTracker --------------------------
(* spec -> impl: the complete transition relation of the small scope, one JSON line per *)
(* transition: pre-state, operation, result, post-state, published info, tag counters.  *)
EXTENDS PeerTracker, Json, TLC
View == <<P, pub, pcount>>
SetMask(S) == LET RECURSIVE Sum(_)
                  Sum(T) == IF T = {} THEN 0 ELSE LET x == CHOOSE x \in T : TRUE IN 2^(x-1) + Sum(T \ {x})
              IN Sum(S)
Enc(S) == [p \in Peers |-> <<IF S[p].k THEN 1 ELSE 0, SetMask(S[p].c), IF S[p].t THEN 1 ELSE 0,
                             IF S[p].a THEN 1 ELSE 0, S[p].kind, SetMask(S[p].pr), IF S[p].old THEN 1 ELSE 0>>]
PubSeq(i) == <<i.conn, i.trusted, i.full, i.arch>>
GenNext == /\ Next
           /\ PrintT(ToJson([op |-> op'.name, p |-> op'.p, x |-> op'.x, pre |-> Enc(P), post |-> Enc(P'),
                             res |-> res', pub |-> PubSeq(pub'), pcount |-> pcount']))
=============================================================================
