----------------------------- MODULE MC_HxClient ----------------------------
EXTENDS HxClient
\* palette: 1 -> (height 5, A)  2 -> (height 5, B)  3 -> (height 6, A)  4 -> (height 7, A)
MCHdrHeight(k) == IF k <= 2 THEN 5 ELSE IF k = 3 THEN 6 ELSE 7
\* `last` is an observation variable
View == <<avars, mon>>
=============================================================================
