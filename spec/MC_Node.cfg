CONSTANTS
  N = 4
  Batch = 2
  WSamp = 3
  WPrune = 1
  Lim = 1
  Extra = 1
  MaxBatch = 2
  SlowThr = 1
SPECIFICATION Spec
VIEW View
INVARIANTS TypeOK NoRequestBelowOldHeader SafeRemoval MarkOnlyStored StartBound OngoingStored BlockstoreNoLeak PrunedEdgesAreOld
CHECK_DEADLOCK FALSE
