----------------------------- MODULE WindowSearch ----------------------------
(***************************************************************************)
(* C36.  The pruner's window-edge search (node/src/pruner.rs               *)
(* find_height_after_window, _fast, _slow).                                *)
(*                                                                         *)
(* Stored heights S, header times increase with height (T(h) = 2h), the    *)
(* cutoff c ranges over 0..2N+2 (odd = strictly between two headers, even  *)
(* = tie with a header time).                                              *)
(*                                                                         *)
(* Property layer: AllowedAns(S, c) is the set of answers the statement    *)
(* permits (0 encodes "nothing").  An admissible previous answer is one    *)
(* that was allowed for an earlier cutoff on the same stored set, possibly *)
(* with that height removed since.                                         *)
(***************************************************************************)
EXTENDS Naturals, FiniteSets, Sequences, Ranges

T(h) == 2 * h

\* r = h > 0: h stored, not newer than the cutoff, nothing older than the cutoff above it
\* r = 0    : allowed only if no stored header is strictly older than the cutoff
AllowedAns(S, c) ==
    {h \in S : T(h) <= c /\ \A g \in S : g > h => ~(T(g) < c)}
    \cup (IF \A g \in S : ~(T(g) < c) THEN {0} ELSE {})

\* the single canonical answer when there is no tie: highest stored header older than the cutoff
Canonical(S, c) == LET O == {h \in S : T(h) < c} IN IF O = {} THEN 0 ELSE MaxOf(O)

\* previous answers the caller may pass for (S, c): allowed for an earlier cutoff c0 <= c on S
\* or on S with the answer itself still present
AdmissiblePrev(S, c, U) ==
    {0} \cup {p \in 1..U :
                 \E c0 \in 0..c : p \in AllowedAns(S \cup {p}, c0)}
=============================================================================
