CONSTANT N = 3
CONSTANT LateGuards = TRUE
CONSTANT Deviation = "none"
SPECIFICATION Spec
INVARIANTS TypeOK Safety CountIsHeld ParkedArmed
PROPERTY Live
CHECK_DEADLOCK FALSE
