CONSTANT N = 3
CONSTANT LateGuards = TRUE
CONSTANT Deviation = "none"
CONSTANT ExitKinds = {"return", "panic"}
SPECIFICATION Spec
INVARIANTS TypeOK Safety CountIsHeld ParkedArmed
PROPERTY Live
CHECK_DEADLOCK FALSE
