----------------------------- MODULE MC_TxClient ----------------------------
EXTENDS TxClient
Bound == seq = None \/ seq <= MaxSeq + Cardinality(Subs)
=============================================================================
