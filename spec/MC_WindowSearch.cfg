CONSTANT N = 5
SPECIFICATION Spec
INVARIANTS AnswerExists UniqueNoTie PrevAdmissible Monotone
CHECK_DEADLOCK FALSE
