CONSTANT Subs = {1, 2}
CONSTANT MaxSeq = 2
CONSTANT Fuel = 2
CONSTANT UseEst = FALSE
INIT AInit
NEXT Next
CONSTRAINT Bound
INVARIANTS TypeOK LockOK PropOK BeliefOK
CHECK_DEADLOCK FALSE
