--------------------------- MODULE Trace_TxHonest ---------------------------
(***************************************************************************)
(* impl -> spec, property layer, clause E of C43 (see TxPipeline.tla):     *)
(* recorded runs against the HONEST fake node.  Every broadcast event of a *)
(* newly signed transaction carries the node-side facts                    *)
(*   nx        the sequence CheckTx expects at that moment,                *)
(*   inflight  number of transactions in the node's mempool,               *)
(*   unrep     1 iff a rejection was decided whose submission has not      *)
(*             returned yet (the family's discipline is broken by signing  *)
(*             now: from then on nothing is demanded).                     *)
(* Demanded: when no other submission is active and nothing is in flight,  *)
(* the newly signed transaction carries the sequence the node expects.     *)
(***************************************************************************)
EXTENDS Naturals, Sequences, FiniteSets, Json, IOUtils, TLC
CONSTANT Subs
Rec == ndJsonDeserialize(IOEnv.TRACE)
VARIABLES l, act, clean, bad
tvars == <<l, act, clean, bad>>
E == Rec[l]

Judge == bad' = "" \/ (PrintT(<<"CLAUSE", bad'>>) /\ FALSE)

TStep ==
    /\ l <= Len(Rec) /\ l' = l + 1
    /\ LET nm == E.name IN
       \/ nm = "reset" /\ act' = {} /\ clean' = TRUE /\ bad' = ""
       \/ nm = "begin" /\ act' = act \cup {E.s} /\ UNCHANGED <<clean, bad>>
       \/ nm = "end"   /\ act' = act \ {E.s} /\ UNCHANGED <<clean, bad>>
       \/ nm = "bcast" /\ E.fresh = 1
                       /\ bad' = (IF clean /\ E.unrep = 0 /\ act = {E.s} /\ E.inflight = 0 /\ E.q # E.nx
                                  THEN "E-next-signature-not-the-sequence-the-node-expects" ELSE "")
                       /\ clean' = (clean /\ E.unrep = 0)
                       /\ UNCHANGED act
       \/ nm = "bcast" /\ E.fresh = 0 /\ UNCHANGED <<act, clean, bad>>
       \/ nm \in {"acct", "est", "status", "block"} /\ UNCHANGED <<act, clean, bad>>
    /\ Judge

TInit == l = 1 /\ act = {} /\ clean = TRUE /\ bad = ""
TSpec == TInit /\ [][TStep]_tvars

Accepted ==
    LET d == TLCGet("stats").diameter IN
    IF d - 1 = Len(Rec) THEN TRUE
    ELSE /\ PrintT(<<"REJECT-AT", d>>)
         /\ PrintT(ToJson(Rec[d]))
         /\ FALSE
=============================================================================
