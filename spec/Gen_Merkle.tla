----------------------------- MODULE Gen_Merkle -----------------------------
(* spec -> impl: one JSON line per case with the verdicts the property demands
   (v1: sentence 1, any merkle proof; v2: sentence 2, proofs over a DAH) and the
   model's own answer m (compared as drift only).                               *)
EXTENDS Merkle, Json
B(b) == IF b THEN 1 ELSE 0
Emit == PrintT(ToJson([n |-> c.n, i |-> c.i, fam |-> c.fam, sub |-> c.sub, k |-> c.k,
                       index |-> c.index, total |-> c.total, leaf |-> c.leaf, arg |-> c.arg,
                       aunts |-> c.aunts, root |-> c.root,
                       path |-> IF SamePath(c) THEN "same-shape" ELSE "other-shape", v1 |-> V1(c), v2 |-> V2(c), m |-> B(ModelAccepts(c))]))
=============================================================================
