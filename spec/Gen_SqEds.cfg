CONSTANT MaxW = 256
CONSTANT MinW = 2
CONSTANT K = 4
INIT Init
NEXT GenNext
CHECK_DEADLOCK FALSE
