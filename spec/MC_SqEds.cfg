CONSTANT MaxW = 256
CONSTANT MinW = 2
CONSTANT K = 4
INIT Init
NEXT Next
INVARIANTS ShapeSound AcceptedWidths HalfRecovers
CHECK_DEADLOCK FALSE
