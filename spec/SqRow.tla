-------------------------------- MODULE SqRow --------------------------------
(***************************************************************************)
(* C05.  Row retrieval over the symbolic square.  A row travels as one half *)
(* (K shares) plus a side label; Row::from_raw rebuilds the other half      *)
(* (left: Reed-Solomon extension, right: reconstruction) and Row::verify    *)
(* compares the NMT root of the rebuilt row with the committed row root.    *)
(* Shares are identified by their committed coordinates (Square.tla         *)
(* conventions).  Reed-Solomon is axiomatic: the extension of a data half   *)
(* is the committed parity half of row j iff it is exactly the data half of *)
(* row j (and symmetrically for reconstruction); anything else gives shares *)
(* that are not in the square.                                              *)
(*   RowDemand: the honest half of row i, either side, is accepted and      *)
(*   decodes to row i; every edited half is rejected (its decoded row       *)
(*   cannot be row i).  RowCode: the design.                                *)
(***************************************************************************)
EXTENDS Naturals, Sequences, FiniteSets, TLC

CONSTANT K
W   == 2 * K
Idx == 0..(W - 1)

VARIABLE kase

CellT(r, c) == <<"cell", r, c>>
DataHalf(i) == [p \in 1..K |-> CellT(i, p - 1)]
ParHalf(i)  == [p \in 1..K |-> CellT(i, K + p - 1)]
RowOf(i)    == DataHalf(i) \o ParHalf(i)

Extend(d)  == IF \E j \in Idx : d = DataHalf(j) THEN ParHalf(CHOOSE j \in Idx : d = DataHalf(j))
              ELSE [p \in 1..Len(d) |-> <<"enc", d, p>>]
Recover(r) == IF \E j \in Idx : r = ParHalf(j) THEN DataHalf(CHOOSE j \in Idx : r = ParHalf(j))
              ELSE [p \in 1..Len(r) |-> <<"dec", r, p>>]
\* side "mem": an in-memory Row { shares } handed to Row::verify directly (nothing is rebuilt)
Decoded(h, side) == IF side = "mem" THEN h ELSE IF side = "left" THEN h \o Extend(h) ELSE Recover(h) \o h

HonestHalf(i, side) == IF side = "mem" THEN RowOf(i) ELSE IF side = "left" THEN DataHalf(i) ELSE ParHalf(i)

\* algorithmic layer: from_raw + verify (collision-free root comparison)
RowCode(i, h, side) == Decoded(h, side) = RowOf(i)
\* property layer
RowDemand(i, h, side) ==
    IF h = HonestHalf(i, side) THEN "accept"
    ELSE IF Decoded(h, side) = RowOf(i) THEN "either" ELSE "reject"

Verdict(b) == IF b THEN "accept" ELSE "reject"
Conforms(demand, got) == demand = "either" \/ demand = got

Seed(i, side) == [cls |-> "init", i |-> i, side |-> side]
Mk(cls, mut, h, label) == [cls |-> cls, mut |-> mut, i |-> kase.i, side |-> kase.side, h |-> h, label |-> label]
Init == kase \in {Seed(i, side) : i \in Idx, side \in {"left", "right"}}
HH == HonestHalf(kase.i, kase.side)
OtherSide(s) == IF s = "left" THEN "right" ELSE "left"

Honest == kase.cls = "init" /\ kase' = Mk("honest", <<"none">>, HH, kase.side)

Edit ==
    /\ kase.cls = "init"
    /\ \/ \E p \in 1..K : kase' = Mk("edit", <<"alt", p - 1>>, [HH EXCEPT ![p] = <<"alt", HH[p][2], HH[p][3]>>], kase.side)
       \/ \E p \in 1..K, p2 \in 1..K :
             p < p2 /\ kase' = Mk("edit", <<"swap", p - 1, p2 - 1>>, [HH EXCEPT ![p] = HH[p2], ![p2] = HH[p]], kase.side)
       \/ \E p \in 1..K, p2 \in 1..K :
             p # p2 /\ kase' = Mk("edit", <<"dup", p - 1, p2 - 1>>, [HH EXCEPT ![p2] = HH[p]], kase.side)
       \/ \E j \in Idx \ {kase.i} : kase' = Mk("edit", <<"other_row", j>>, HonestHalf(j, kase.side), kase.side)
       \/ \E j \in Idx \ {kase.i}, p \in 1..K :
             kase' = Mk("edit", <<"one_from_row", j, p - 1>>, [HH EXCEPT ![p] = HonestHalf(j, kase.side)[p]], kase.side)
       \/ kase' = Mk("edit", <<"wrong_side">>, HH, OtherSide(kase.side))
       \/ kase' = Mk("edit", <<"other_half">>, HonestHalf(kase.i, OtherSide(kase.side)), kase.side)
       \/ kase' = Mk("edit", <<"short">>, SubSeq(HH, 1, K - 1), kase.side)
       \/ kase' = Mk("edit", <<"long">>, HH \o <<HH[1]>>, kase.side)

\* In-memory rows of the wrong length or content: the committed row plus surplus shares, too short rows, ...
\* (Row::verify must compare the root of *all* the shares it is given; a tree over another number of
\* leaves is another term).  Enumerated once per row index (from the "left" seed).
FullRow ==
    /\ kase.cls = "init" /\ kase.side = "left"
    /\ LET R == RowOf(kase.i) IN
       \/ kase' = Mk("fullrow", <<"none">>, R, "mem")
       \/ \E j \in Idx, c \in Idx : kase' = Mk("fullrow", <<"extra1", j, c>>, R \o <<CellT(j, c)>>, "mem")
       \/ kase' = Mk("fullrow", <<"dup_tail">>, R \o <<R[W]>>, "mem")
       \/ kase' = Mk("fullrow", <<"extra_half_parity">>, R \o ParHalf(kase.i), "mem")
       \/ kase' = Mk("fullrow", <<"extra_half_data">>, R \o DataHalf(kase.i), "mem")
       \/ kase' = Mk("fullrow", <<"twice">>, R \o R, "mem")
       \/ kase' = Mk("fullrow", <<"short1">>, SubSeq(R, 1, W - 1), "mem")
       \/ kase' = Mk("fullrow", <<"short_first">>, SubSeq(R, 2, W), "mem")
       \/ kase' = Mk("fullrow", <<"data_half_only">>, DataHalf(kase.i), "mem")
       \/ kase' = Mk("fullrow", <<"empty">>, <<>>, "mem")
       \/ \E j \in Idx \ {kase.i} : kase' = Mk("fullrow", <<"other_row", j>>, RowOf(j), "mem")
       \/ \E p \in 1..W, p2 \in 1..W : p < p2 /\ kase' = Mk("fullrow", <<"swap", p - 1, p2 - 1>>, [R EXCEPT ![p] = R[p2], ![p2] = R[p]], "mem")
       \/ \E p \in 1..W : kase' = Mk("fullrow", <<"alt", p - 1>>, [R EXCEPT ![p] = <<"alt", R[p][2], R[p][3]>>], "mem")

Next == Honest \/ Edit \/ FullRow

RowSound == kase.cls # "init" => Conforms(RowDemand(kase.i, kase.h, kase.label), Verdict(RowCode(kase.i, kase.h, kase.label)))
HonestDecodes == kase.cls = "honest" => Decoded(kase.h, kase.label) = RowOf(kase.i)
AcceptOnlyRow == (kase.cls # "init" /\ RowCode(kase.i, kase.h, kase.label)) => Decoded(kase.h, kase.label) = RowOf(kase.i)
=============================================================================
