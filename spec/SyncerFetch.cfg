CONSTANTS
  N = 5
  Batch = 2
  WSamp = 3
  WPrune = 2
  ReadOrder = "SP"
  Recheck = FALSE
  MaxNow = 7
SPECIFICATION Spec
INVARIANTS NoRequestBelowOldHeader FetchAllowed
CHECK_DEADLOCK FALSE
