------------------------------ MODULE HxServer ------------------------------
(***************************************************************************)
(* C29.  The header-ex server: what a peer must be answered, for any store *)
(* and any request.  Exact oracle (the property pins the answer):          *)
(*   head request      -> the stored head, or a single not-found           *)
(*   height request    -> the longest run of consecutive stored headers    *)
(*                        starting at the origin, capped at min(amount,Cap)*)
(*                        or a single not-found                            *)
(*   hash request      -> that header, or a single not-found               *)
(*   invalid request   -> a single invalid response                         *)
(* and never a crash.  The server may be asked many times while the store  *)
(* changes (new head, batches filling gaps below the head, removals): the  *)
(* answer is always the one for the store as it is at that moment          *)
(* (HistMode: request / mutation / request on one long-lived handler).     *)
(*                                                                         *)
(* A store is a set of runs <<lo, hi>> (sorted, disjoint, non-adjacent),   *)
(* so that stores longer than Cap = 512 are cheap.  Numbers live in 0..M;  *)
(* the harness embeds v < M/2 as v and v >= M/2 as u64::MAX - (M - v)      *)
(* (two-block embedding, DESIGN 4): M stands for u64::MAX.  Stored heights *)
(* are in the low block only (a header height is at most i64::MAX).        *)
(***************************************************************************)
EXTENDS Naturals, FiniteSets, Sequences

CONSTANTS M,         \* stands for u64::MAX
          Cap,       \* MAX_HEADERS_AMOUNT_RESPONSE
          Stores,    \* set of stores (each a set of runs)
          Origins,   \* origins of height requests
          Amounts,   \* amounts of height requests
          HashTargets,  \* heights whose header's hash is asked for (stored or not)
          HashLens,  \* lengths of the hash field (32 is the valid one)
          SmallAmounts  \* amounts used with hash / no-data requests

CONSTANTS HistMode,   \* TRUE: histories request / store mutation / request on ONE handler
          MutMax      \* heights that store mutations may touch: 1..MutMax

VARIABLES store, req, ans,
          ph          \* phase of the behaviour: 0 first request, 1 mutation, 2 second request, 3 over
vars == <<store, req, ans, ph>>

MinOf2(a, b) == IF a <= b THEN a ELSE b

(* ---- stores ---- *)
InS(S, h)   == \E r \in S : r[1] <= h /\ h <= r[2]
RunOf(S, h) == CHOOSE r \in S : r[1] <= h /\ h <= r[2]
HeadH(S)    == CHOOSE h \in {r[2] : r \in S} : \A r \in S : r[2] <= h
CanonicalStore(S) ==
    /\ \A r \in S : 1 <= r[1] /\ r[1] <= r[2] /\ r[2] < M \div 2
    /\ \A r, q \in S : r # q => (r[2] + 1 < q[1] \/ q[2] + 1 < r[1])

\* Length of the run of stored heights starting at o, capped at c (by the run structure).
RunLen(S, o, c) == IF InS(S, o) THEN MinOf2(c, RunOf(S, o)[2] - o + 1) ELSE 0

\* The same, from first principles (membership only); equal on canonical stores (checked).
RunLenDef(S, o, c) ==
    CHOOSE k \in 0..c : /\ \A i \in 0..(k-1) : InS(S, o + i)
                        /\ (k = c \/ ~InS(S, o + k))

(* ---- requests ---- *)
HeightReq(o, a)   == [kind |-> "height", origin |-> o, amount |-> a, target |-> 0, len |-> 0]
HashReq(t, l, a)  == [kind |-> "hash", origin |-> 0, amount |-> a, target |-> t, len |-> l]
NoDataReq(a)      == [kind |-> "nodata", origin |-> 0, amount |-> a, target |-> 0, len |-> 0]
NoReq             == [kind |-> "init", origin |-> 0, amount |-> 0, target |-> 0, len |-> 0]

Requests == {HeightReq(o, a) : o \in Origins, a \in Amounts}
            \cup {HashReq(t, l, a) : t \in HashTargets, l \in HashLens, a \in SmallAmounts}
            \cup {NoDataReq(a) : a \in SmallAmounts}

\* HeaderRequestExt::is_valid (the protocol's notion of a well-formed request)
Valid(r) ==
    /\ r.kind # "nodata"
    /\ r.amount # 0
    /\ (r.kind = "height" /\ r.origin = 0) => r.amount = 1
    /\ r.kind = "hash" => (r.len = 32 /\ r.amount = 1)

IsHead(r) == r.kind = "height" /\ r.origin = 0 /\ r.amount = 1

(* ---- answers ---- *)
Invalid    == [st |-> "invalid",  from |-> 0, n |-> 0]
NotFound   == [st |-> "notfound", from |-> 0, n |-> 0]
Headers(f, k) == [st |-> "ok", from |-> f, n |-> k]   \* headers f, f+1, .., f+k-1 in this order

Answer(S, r) ==
    IF ~Valid(r) THEN Invalid
    ELSE IF IsHead(r) THEN (IF S = {} THEN NotFound ELSE Headers(HeadH(S), 1))
    ELSE IF r.kind = "height"
         THEN LET k == RunLen(S, r.origin, MinOf2(r.amount, Cap))
              IN IF k = 0 THEN NotFound ELSE Headers(r.origin, k)
    ELSE \* hash
         IF InS(S, r.target) THEN Headers(r.target, 1) ELSE NotFound

(* ---- store mutations between two requests (the handler lives on) ---- *)
Heights(S) == UNION {r[1]..r[2] : r \in S}
IsLo(H, h) == h \in H /\ (h - 1) \notin H
HiOf(H, l) == CHOOSE h \in H : h >= l /\ (\A x \in l..h : x \in H) /\ (h + 1) \notin H
RunsOfSet(H) == {<<l, HiOf(H, l)>> : l \in {h \in H : IsLo(H, h)}}
\* Store::insert admits a batch of consecutive new heights above the head, or adjacent to a stored run
InsOk(S, lo, hi) ==
    LET H == Heights(S) IN
    /\ 1 <= lo /\ lo <= hi /\ (lo..hi) \cap H = {}
    /\ (IF S = {} THEN TRUE ELSE (lo > HeadH(S) \/ (lo - 1) \in H \/ (hi + 1) \in H))
Mutations(S) == {[op |-> "none", lo |-> 0, hi |-> 0]}
                \cup {[op |-> "ins", lo |-> lo, hi |-> hi] : lo \in 1..MutMax, hi \in 1..MutMax}
                \cup {[op |-> "rem", lo |-> h, hi |-> h] : h \in 1..MutMax}
MutOk(S, m) == CASE m.op = "none" -> TRUE
                 [] m.op = "ins"  -> InsOk(S, m.lo, m.hi)
                 [] m.op = "rem"  -> m.lo \in Heights(S)
Apply(S, m) == CASE m.op = "none" -> S
                 [] m.op = "ins"  -> RunsOfSet(Heights(S) \cup (m.lo..m.hi))
                 [] m.op = "rem"  -> RunsOfSet(Heights(S) \ {m.lo})

Init == store \in Stores /\ req = NoReq /\ ans = Invalid /\ ph = 0
\* The answer is the one for the store AS IT IS when the request is served - whatever was asked or
\* answered before on the same handler.  Without HistMode: one request per behaviour.
Serve(r) == /\ ph \in {0, 2}
            /\ req' = r /\ ans' = Answer(store, r) /\ UNCHANGED store
            /\ ph' = IF HistMode THEN ph + 1 ELSE 3
Mutate(m) == /\ HistMode /\ ph = 1 /\ MutOk(store, m)
             /\ store' = Apply(store, m) /\ req' = NoReq /\ ans' = Invalid /\ ph' = 2
Next == \/ \E r \in Requests : Serve(r)
        \/ \E m \in Mutations(store) : Mutate(m)
Spec == Init /\ [][Next]_vars

(* ---- the property, clause by clause, on the model ---- *)
TypeOK == CanonicalStore(store)

AnswerShape ==
    req.kind # "init" =>
        /\ ans.st = "ok" => /\ ans.n >= 1 /\ ans.n <= Cap
                            /\ \A i \in 0..(ans.n - 1) : InS(store, ans.from + i)
        /\ (ans.st = "invalid") <=> ~Valid(req)

HeadClause ==
    (Valid(req) /\ IsHead(req)) =>
        IF store = {} THEN ans = NotFound
        ELSE ans.st = "ok" /\ ans.n = 1 /\ \A r \in store : r[2] <= ans.from

HeightClause ==
    (Valid(req) /\ req.kind = "height" /\ req.origin > 0) =>
        LET c == MinOf2(req.amount, Cap) IN
        /\ ans.st = "notfound" <=> ~InS(store, req.origin)
        /\ ans.st = "ok" => /\ ans.from = req.origin /\ ans.n <= c
                            /\ (ans.n < c => ~InS(store, req.origin + ans.n))   \* longest
        /\ (IF ans.st = "ok" THEN ans.n ELSE 0) = RunLenDef(store, req.origin, c)

HashClause ==
    (Valid(req) /\ req.kind = "hash") =>
        IF InS(store, req.target) THEN ans = Headers(req.target, 1) ELSE ans = NotFound
=============================================================================
