------------------------------ MODULE RowProof ------------------------------
(***************************************************************************)
(* C13, second sentence: row proofs and share proofs built from a DAH      *)
(* verify against its hash and fail if a proven root, a proven share or an *)
(* inner node is altered, or the number of roots does not match the        *)
(* claimed row span.                                                       *)
(*                                                                         *)
(* Row cases: claimed span (start, end) over u16 edge values, number of    *)
(* row roots and of merkle proofs carried; contents are honest roots and   *)
(* proofs of consecutive rows of a real DAH (optionally one altered).      *)
(* `RowModel` transcribes RowProof::verify (data_availability_header.rs)   *)
(* with the span computed without u16 overflow (code after the fix).       *)
(*                                                                         *)
(* Share cases: a namespace occupying the ODS cells (r0,c0)..(r1,c1) in    *)
(* row-major order of a W x W ODS, the per-row NMT range proofs, and one   *)
(* alteration.  Hashing is symbolic: every recomputed root is a term, so   *)
(* any alteration of a share / inner node / root changes the term;         *)
(* `ShareModel` therefore transcribes only the counting checks of          *)
(* ShareProof::verify (share/proof.rs) on top of content equality.         *)
(***************************************************************************)
EXTENDS Naturals, Sequences, FiniteSets, TLC

CONSTANTS W,          \* ODS width of the concrete square (EDS width 2W)
          MaxLists    \* row cases carry 0..MaxLists roots / proofs

VARIABLE c

U16Edge == {0, 1, 2, 3, 65533, 65534, 65535}

(* ---- row proofs ---- *)
\* honest = what dah.row_proof(start..=end) builds
RowHonest(r) == /\ r.start <= r.end /\ r.end < 2 * W
                /\ r.nroots = r.end - r.start + 1 /\ r.nproofs = r.nroots /\ r.alt = "none"
RowModel(r) == /\ r.nroots = r.nproofs
               /\ r.end >= r.start
               /\ r.end - r.start + 1 = r.nproofs
               /\ r.alt = "none"          \* symbolic hashing: any altered root / aunt changes the recomputed DAH hash
RowVerdict(r) ==
    IF RowHonest(r) THEN "A"
    ELSE IF r.end < r.start \/ r.nroots # r.end - r.start + 1 THEN "R"   \* roots do not match the span
    ELSE IF r.alt \in {"root", "aunt"} THEN "R"                             \* proven root / inner node altered
    ELSE "E"

RowStruct == {[kind |-> "row", start |-> s, end |-> e, nroots |-> a, nproofs |-> b, alt |-> "none", j |-> 0, t |-> 0] :
                <<s, e, a, b>> \in U16Edge \X U16Edge \X (0..MaxLists) \X (0..MaxLists)}
RowAltered == {[kind |-> "row", start |-> s, end |-> e, nroots |-> e - s + 1, nproofs |-> e - s + 1, alt |-> a, j |-> j, t |-> t] :
                <<s, e, a, j, t>> \in {x \in (0..3) \X (0..3) \X {"root", "aunt"} \X (0..3) \X (0..3) :
                                        x[1] <= x[2] /\ x[4] <= x[2] - x[1]}}

(* ---- share proofs ---- *)
Cells == (0..(W - 1)) \X (0..(W - 1))
Lin(p) == p[1] * W + p[2]
\* per-row column ranges [s, e) of the namespace
RowRange(r0, c0, r1, c1, r) == <<IF r = r0 THEN c0 ELSE 0, IF r = r1 THEN c1 + 1 ELSE W>>
NShares(r0, c0, r1, c1) == Lin(<<r1, c1>>) - Lin(<<r0, c0>>) + 1

ShareAlts == {"none",
              "share_flip_first", "share_flip_last", "share_flip_mid", "share_drop_last", "share_drop_first",
              "share_extra", "share_swap",                        \* proven shares altered
              "nmt_node_flip_first", "nmt_node_flip_last", "nmt_node_drop",   \* inner node of a row tree altered
              "row_root_flip", "row_root_other",                  \* proven row root altered
              "row_aunt_flip",                                    \* inner node of the DAH tree altered
              "span_end_plus", "span_start_plus", "roots_drop_last",   \* roots vs claimed span
              "share_proof_drop_last", "nmt_range_shift", "namespace_other"}  \* not in the statement's list

ListedAlt == ShareAlts \ {"none", "share_proof_drop_last", "nmt_range_shift", "namespace_other"}

ShareCases == {[kind |-> "share", r0 |-> a[1], c0 |-> a[2], r1 |-> b[1], c1 |-> b[2], alt |-> m, j |-> j,
                ranges |-> [r \in 1..(b[1] - a[1] + 1) |-> RowRange(a[1], a[2], b[1], b[2], a[1] + r - 1)],
                nshares |-> NShares(a[1], a[2], b[1], b[2])] :
                <<a, b, m, j>> \in {x \in Cells \X Cells \X ShareAlts \X (0..(W - 1)) :
                                     Lin(x[1]) <= Lin(x[2]) /\ x[4] <= x[2][1] - x[1][1]}}

\* counting checks of ShareProof::verify on an abstract proof
ShareCounts(p) ==
    LET nrows == Len(p.ranges)
        nsp   == IF p.alt = "share_proof_drop_last" THEN nrows - 1 ELSE nrows
        nroot == IF p.alt = "roots_drop_last" THEN nrows - 1 ELSE nrows
        ndata == p.nshares + (IF p.alt = "share_extra" THEN 1 ELSE 0)
                           - (IF p.alt \in {"share_drop_last", "share_drop_first"} THEN 1 ELSE 0)
        RECURSIVE Sum(_)
        Sum(k) == IF k = 0 THEN 0 ELSE Sum(k - 1) + (p.ranges[k][2] - p.ranges[k][1])
        needed == Sum(nsp) - (IF p.alt = "nmt_range_shift" /\ p.j + 1 <= nsp THEN 1 ELSE 0)
        span   == nrows + (IF p.alt \in {"span_end_plus"} THEN 1 ELSE 0) - (IF p.alt = "span_start_plus" THEN 1 ELSE 0)
    IN /\ nsp = nroot
       /\ needed = ndata
       /\ span = nroot
ShareModel(p) == ShareCounts(p) /\ p.alt = "none"
ShareVerdict(p) == IF p.alt = "none" THEN "A" ELSE IF p.alt \in ListedAlt THEN "R" ELSE "E"

Cases == RowStruct \cup RowAltered \cup ShareCases
Init == c \in Cases
Next == UNCHANGED c

Model(p)   == IF p.kind = "row" THEN RowModel(p) ELSE ShareModel(p)
Verdict(p) == IF p.kind = "row" THEN RowVerdict(p) ELSE ShareVerdict(p)

(* ---- invariants: the design meets the statement ---- *)
HonestAccepted   == Verdict(c) = "A" => Model(c)
ListedRejected   == Verdict(c) = "R" => ~Model(c)
\* ranges are well formed: non-empty per row and they add up to the share count
RangesOK == c.kind = "share" =>
              /\ \A k \in 1..Len(c.ranges) : c.ranges[k][1] < c.ranges[k][2] /\ c.ranges[k][2] <= W
              /\ (c.alt = "none" => ShareCounts(c))
\* the span never needs arithmetic beyond u16 in the model's formulation
SpanNoOverflow == c.kind = "row" /\ c.end >= c.start => c.end - c.start <= 65535
=============================================================================
