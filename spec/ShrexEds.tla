------------------------------ MODULE ShrexEds ------------------------------
(***************************************************************************)
(* C09.  The shrex EDS response decoder                                     *)
(*   ResponseCodec for ExtendedDataSquare :: decode_and_verify              *)
(*   (node/src/p2p/shrex/codec.rs).                                         *)
(*                                                                         *)
(* A payload is a sequence of shares plus a number of trailing bytes that   *)
(* do not fill a share.  Shares are symbolic: <<sq, t, flip>> is the share  *)
(* at row-major position t of the original data square of block `sq`        *)
(* ("A": the square the payload was made from, "B": another block with a    *)
(* (<<"P", r, _>>: a share carrying the parity namespace, "Z": all zero)    *)
(* square of the same width), with `flip` saying which byte of it was       *)
(* altered.  All committed shares are pairwise distinct (the harness keeps  *)
(* them so), hence a share is identified by its token.                      *)
(*                                                                         *)
(* The data availability header is an injective function of the sequence   *)
(* of ODS shares (collision-free hashing and the determinism of the         *)
(* erasure code are the trusted base): Dah(p) = Dah(q) iff p = q.  It is    *)
(* therefore represented by the share sequence itself and compared          *)
(* position by position.                                                    *)
(*                                                                         *)
(* Payloads are never materialised: a payload is given by its mutation      *)
(* descriptor m, its length LenOf(m), its tail TailOf(m) and the share at   *)
(* each position ShareAt(m, t).  m.k is the *real* ODS width, so the share  *)
(* counts the decoder's dimension checks see are the real ones.             *)
(*                                                                         *)
(*  property layer   : Demand(c)  - what the statement demands              *)
(*  algorithmic layer: Code(c)    - the checks of the decoder in the order  *)
(*                                  of the code (design of the decoder)     *)
(***************************************************************************)
EXTENDS Integers, Sequences, FiniteSets, TLC

CONSTANTS Ks,         \* ODS widths of the block's square that are enumerated (powers of two)
          Kinds,      \* which mutation kinds are enumerated
          AppendMax,  \* "append to the next power-of-two square" only when 2K <= AppendMax
          Dev         \* "none": the design; "nodah": a decoder that does not compare the computed DAH;
                      \* "rowsonly": one that compares the row roots only; "emptyshort": one that takes any
                      \* single share with the tail-padding namespace under a width-2 DAH for the empty block
                      \* (sensitivity runs: must violate
                      \* CodeMeetsDemand)

VARIABLE kase

NN(k) == k * k
Pow2s == {1, 2, 4, 8, 16, 32, 64, 128, 256, 512, 1024}
IsPow2(n) == n \in Pow2s
ISqrt(n) == CHOOSE r \in 0..1100 : r * r <= n /\ (r + 1) * (r + 1) > n
ShareSize == 512

(* ------------------------------------------------------------------ app versions *)
\* classes of app versions: "old" = V1,V2; "mid" = V3..V5; "new" = V6,V7
Apps == {"old", "mid", "new"}
MaxOds(app) == IF app = "new" THEN 512 ELSE 128
\* square features: "plain" = only share version 0; "sv1" = contains share-version-1 shares
Feats == {"plain", "sv1"}
\* a square with these features and ODS width k is a valid square under `app`
ValidUnder(feat, k, app) == (feat = "sv1" => app # "old") /\ k <= MaxOds(app)

(* ------------------------------------------------------------------ shares and namespaces *)
Flips == {"none", "ns", "nsver", "info", "seq", "data", "last"}
Tok(sq, t, f) == <<sq, t, f>>
\* the tail-padding share (tail-padding namespace, sequence start, zeros): what squares are filled up
\* with, and the whole ODS of the empty block "E" (ODS width 1); PadTok(f): with one byte altered
PadTok(f) == <<"T", 0, f>>
PadFlips == {"none", "info", "seq", "data", "last"}     \* (flips that keep the namespace bytes)

\* Namespace layout of the generated squares (row-major blocks of a 5-element ascending
\* palette, the last being tail padding); the harness builds its squares with the same formula.
Palette == 5
NsOf(t, n) == (t * Palette) \div n
\* namespace rank of a token in a payload laid out for n shares; 100 = not decidable here
\* (an altered namespace), 101 = an invalid namespace version
NsRank(tok, n0) == CASE tok[1] = "P" -> 200 [] tok[1] = "T" -> Palette - 1 [] tok[3] = "ns" -> 100 [] tok[3] = "nsver" -> 101 [] OTHER -> NsOf(tok[2], n0)

(* ------------------------------------------------------------------ mutation descriptors *)
\* positions the index-taking mutations are applied at
Probe(k) == {t \in 0..(NN(k) - 1) : t \in {0, 1, k - 1, k, k + 1, NN(k) \div 2, NN(k) - k - 1, NN(k) - k, NN(k) - 2, NN(k) - 1}}
Tails == {0, 1, ShareSize - 1}

\* m = [k, kind, i, j, tail, f]; unused fields are 0 / "none"
M(k, kind, i, j, tail, f) == [k |-> k, kind |-> kind, i |-> i, j |-> j, tail |-> tail, f |-> f]

MutsOf(kind, k) ==
    LET N == NN(k)  P == Probe(k) IN
    CASE kind = "honest"  -> {M(k, "honest", 0, 0, 0, "none")}
      \* the first i shares, then `tail` bytes of the next one; (N, 0) is the honest payload
      [] kind = "trunc"   -> {M(k, "trunc", i, 0, tl, "none") : i \in 0..N, tl \in Tails} \ {M(k, "trunc", N, 0, 0, "none")}
      \* honest payload followed by j further shares: copies of the last share (i = 0),
      \* shares of B (i = 1) or all-zero shares (i = 2); j reaches the next square sizes (k+1)^2, (2k)^2
      [] kind = "append"  -> {M(k, "append", i, j, 0, "none") : i \in {0, 1, 2},
                                  j \in {1, 2 * k + 1} \cup (IF 2 * k <= AppendMax THEN {3 * N} ELSE {})}
      [] kind = "swap"    -> {M(k, "swap", i, j, 0, "none") : i \in P, j \in P} \ {M(k, "swap", i, i, 0, "none") : i \in P}
      [] kind = "flip"    -> {M(k, "flip", i, 0, 0, f) : i \in P, f \in Flips \ {"none"}}
      \* share i replaced by the share of B at the same position
      [] kind = "replace" -> {M(k, "replace", i, 0, 0, "none") : i \in P}
      \* share j replaced by a copy of share i
      [] kind = "dup"     -> {M(k, "dup", i, j, 0, "none") : i \in P, j \in P} \ {M(k, "dup", i, i, 0, "none") : i \in P}
      [] kind = "allB"    -> {M(k, "allB", 0, 0, 0, "none")}
      \* share 0 moved to the end
      [] kind = "rotate"  -> IF N > 1 THEN {M(k, "rotate", 0, 0, 0, "none")} ELSE {}
      \* N all-zero shares
      [] kind = "zeros"   -> {M(k, "zeros", 0, 0, 0, "none")}
      \* share i replaced by the tail-padding share
      [] kind = "pad"     -> {M(k, "pad", i, 0, 0, "none") : i \in P}
      \* every share replaced by the tail-padding share, byte f of the first one altered (for k = 1 this is
      \* the ODS of the empty block, resp. a mutated one)
      [] kind = "allpad"  -> {M(k, "allpad", 0, 0, 0, f) : f \in PadFlips}
      \* crafted oversize payloads: i shares laid out in rows of j = floor(sqrt(i)) shares such that the
      \* first share of row r < 2k carries exactly the minimum namespace of the header's row root r (the
      \* square's own share <<r, 0>> in the upper half, a share with the parity namespace in the lower
      \* half): passes any per-row plausibility test against the header, has more rows than the header
      \* has row roots; lengths w^2, w^2 + 1, w^2 + w, (w + 1)^2 for the EDS width w = 2k
      [] kind = "craft"   -> IF 2 * k <= AppendMax
                             THEN {M(k, "craft", 4 * N, 2 * k, 0, "none"), M(k, "craft", 4 * N + 1, 2 * k, 0, "none"),
                                   M(k, "craft", 4 * N + 2 * k, 2 * k, 0, "none"), M(k, "craft", (2 * k + 1) * (2 * k + 1), 2 * k + 1, 0, "none")}
                             ELSE {}
      [] OTHER -> {}

LenOf(m) == CASE m.kind = "trunc" -> m.i [] m.kind = "craft" -> m.i [] m.kind = "append" -> NN(m.k) + m.j [] OTHER -> NN(m.k)
TailOf(m) == m.tail

ZeroTok == <<"Z", 0, "none">>
\* the share at position t (0-based) of the payload
ShareAt(m, t) ==
    LET N == NN(m.k) IN
    CASE m.kind = "honest"  -> Tok("A", t, "none")
      [] m.kind = "trunc"   -> Tok("A", t, "none")
      [] m.kind = "append"  -> IF t < N THEN Tok("A", t, "none")
                               ELSE IF m.i = 0 THEN Tok("A", N - 1, "none")
                               ELSE IF m.i = 1 THEN Tok("B", (t - N) % N, "none")
                               ELSE ZeroTok
      [] m.kind = "swap"    -> IF t = m.i THEN Tok("A", m.j, "none") ELSE IF t = m.j THEN Tok("A", m.i, "none") ELSE Tok("A", t, "none")
      [] m.kind = "flip"    -> IF t = m.i THEN Tok("A", t, m.f) ELSE Tok("A", t, "none")
      [] m.kind = "replace" -> IF t = m.i THEN Tok("B", t, "none") ELSE Tok("A", t, "none")
      [] m.kind = "dup"     -> IF t = m.j THEN Tok("A", m.i, "none") ELSE Tok("A", t, "none")
      [] m.kind = "allB"    -> Tok("B", t, "none")
      [] m.kind = "rotate"  -> Tok("A", (t + 1) % N, "none")
      [] m.kind = "zeros"   -> ZeroTok
      [] m.kind = "pad"     -> IF t = m.i THEN PadTok("none") ELSE Tok("A", t, "none")
      [] m.kind = "allpad"  -> IF t = 0 THEN PadTok(m.f) ELSE PadTok("none")
      [] m.kind = "craft"   -> LET r == t \div m.j IN
                               IF t % m.j = 0 /\ r < 2 * m.k
                               THEN (IF r < m.k THEN Tok("A", r * m.k, "none") ELSE <<"P", r, "none">>)
                               ELSE Tok("A", t % N, "none")

(* ------------------------------------------------------------------ cases *)
\* hdr: the header the response is checked against commits to the ODS of block hdr.sq whose
\* width is hdr.k (k: the right one; k/2, 2k: a header of some other block)
\* alterations of the header's DAH itself (the header is what it is: the decoder must compare the
\* whole DAH, it cannot assume that it is the DAH of any square): one column root replaced by the
\* column root of B at the same index / by one of its own row roots / two column roots swapped;
\* the same for row roots; one of each
DahAlts == {"none", "col_other", "col_row", "col_swap", "row_other", "row_col", "row_swap", "both"}
Hdr(sq, k, alt) == [sq |-> sq, k |-> k, alt |-> alt]
Hdrs(k) == {Hdr("A", k, "none"), Hdr("B", k, "none")}
           \cup (IF k >= 2 THEN {Hdr("A", k \div 2, "none")} ELSE {})
           \cup (IF 2 * k <= AppendMax THEN {Hdr("A", 2 * k, "none")} ELSE {})
           \cup {Hdr("A", k, al) : al \in DahAlts \ {"none"}}
           \* the header of the genuine empty block (its ODS is the single tail-padding share)
           \cup (IF k = 1 THEN {Hdr("E", 1, "none")} ELSE {})

\* case: payload m of a square of ODS width m.k with features `feat`, checked against header hdr
\* whose app version is in class happ, while the decoder is told class app
Case(m, hdr, feat, happ, app) == [cls |-> "case", k |-> m.k, m |-> m, hdr |-> hdr, feat |-> feat, happ |-> happ, app |-> app]

OwnHdr(k) == Hdr("A", k, "none")
AppCases(k) == {Case(M(k, "honest", 0, 0, 0, "none"), OwnHdr(k), x[1], x[2], x[3]) :
                   x \in {y \in Feats \X Apps \X Apps : ValidUnder(y[1], k, y[2])}}
DefaultApp == "new"
MutCases(k) == UNION {{Case(m, OwnHdr(k), "plain", DefaultApp, DefaultApp) : m \in MutsOf(kd, k)} : kd \in Kinds}
HdrCases(k) == IF "hdr" \in Kinds
               THEN {Case(m, h, "plain", DefaultApp, DefaultApp) : m \in MutsOf("honest", k) \cup MutsOf("allB", k) \cup MutsOf("zeros", k) \cup MutsOf("allpad", k)
                                                                          \cup (IF k = 1 THEN MutsOf("flip", k) ELSE {}), h \in Hdrs(k)}
               ELSE {}
CasesOf(k) == (IF "app" \in Kinds THEN AppCases(k) ELSE {}) \cup MutCases(k) \cup HdrCases(k)

(* ------------------------------------------------------------------ property layer *)
\* the payload is exactly the original data square the header commits to
\* (an altered DAH is, by collision-freeness, not the DAH of any enumerated payload)
IsOriginal(c) ==
    /\ c.hdr.alt = "none"
    /\ c.hdr.k = c.k
    /\ LenOf(c.m) = NN(c.k) /\ TailOf(c.m) = 0
    /\ \A t \in 0..(NN(c.k) - 1) : ShareAt(c.m, t) = (IF c.hdr.sq = "E" THEN PadTok("none") ELSE Tok(c.hdr.sq, t, "none"))

\* "accept": must be accepted and the returned square must be the header's square;
\* "reject": must be rejected; "either": the statement leaves it open (a decoder told a foreign
\* app version), but an accepted result must still be the header's square.  Never a panic.
Demand(c) ==
    IF ~IsOriginal(c) THEN "reject"
    ELSE IF c.app = c.happ THEN "accept"
    ELSE "either"

(* ------------------------------------------------------------------ algorithmic layer *)
\* namespaces non-decreasing along every row and every column of the k x k layout of the payload;
\* an altered namespace (rank 100) may or may not keep the order: "maybe"
RowColSorted(m, k) ==
    LET rk(t) == NsRank(ShareAt(m, t), NN(m.k))
        unk == \E t \in 0..(k * k - 1) : rk(t) = 100
        ok == /\ \A r \in 0..(k - 1) : \A cc \in 0..(k - 2) : rk(r * k + cc) <= rk(r * k + cc + 1)
              /\ \A cc \in 0..(k - 1) : \A r \in 0..(k - 2) : rk(r * k + cc) <= rk((r + 1) * k + cc)
    IN IF unk THEN "maybe" ELSE IF ok THEN "yes" ELSE "no"

\* zero shares carry namespace 0, below every palette namespace: in a sorted layout they can only
\* form a prefix of the row-major sequence (sufficient for the payloads enumerated here)
ZeroSorted(m, k) == \A t \in 1..(k * k - 1) : ShareAt(m, t) = ZeroTok => ShareAt(m, t - 1) = ZeroTok

\* result: [v, stages] - the verdict and the set of stages at which a rejection may be reported
Rej(st) == [v |-> "reject", stages |-> st]
Code(c) ==
    LET n == LenOf(c.m) IN
    IF Dev = "emptyshort" /\ n = 1 /\ TailOf(c.m) = 0 /\ ShareAt(c.m, 0)[1] = "T" /\ c.hdr.k = 1 THEN [v |-> "accept", stages |-> {}]
    ELSE IF n = 0 /\ TailOf(c.m) = 0 THEN Rej({"empty"})
    ELSE IF TailOf(c.m) # 0 THEN Rej({"len"})
    ELSE LET k == ISqrt(n) IN
         IF k * k # n THEN Rej({"shape"})                            \* from_ods: not a square
         ELSE IF 2 * k > 2 * MaxOds(c.app) THEN Rej({"shape"})       \* new: more than max shares
         ELSE IF ~IsPow2(k) THEN Rej({"shape"})                       \* new: width not a power of two (or leopard refuses)
         ELSE IF \E t \in 0..(n - 1) : NsRank(ShareAt(c.m, t), NN(c.k)) = 101 THEN Rej({"shape"})
         ELSE IF c.feat = "sv1" /\ c.app = "old" THEN Rej({"shape"})  \* Share::validate
         ELSE IF \E t \in 0..(n - 1) : ShareAt(c.m, t)[3] = "info" THEN Rej({"shape", "dah"})  \* version bits may become invalid
         ELSE IF ~ZeroSorted(c.m, k) THEN Rej({"shape"})
         ELSE LET srt == RowColSorted(c.m, k) IN
              IF srt = "no" THEN Rej({"shape"})
              ELSE IF IsOriginal(c) \/ (Dev = "nodah" /\ srt = "yes")
                      \/ (Dev = "rowsonly" /\ IsOriginal([c EXCEPT !.hdr.alt = "none"]) /\ c.hdr.alt \in {"col_other", "col_row", "col_swap"}) THEN [v |-> "accept", stages |-> {}]   \* computed DAH = header DAH
              ELSE IF srt = "maybe" THEN Rej({"shape", "dah"})
              ELSE Rej({"dah"})

Conforms(demand, got) == demand = "either" \/ demand = got

(* ------------------------------------------------------------------ behaviour *)
Init == kase = [cls |-> "init"]
Pick == kase.cls = "init" /\ \E k \in Ks : \E c \in CasesOf(k) : kase' = c
Next == Pick

IsCase == kase.cls = "case"
\* the design of the decoder meets the statement
CodeMeetsDemand == IsCase => Conforms(Demand(kase), Code(kase).v)
\* an accepted payload is the original data square of the header (so its DAH is the header's)
AcceptOnlyOriginal == IsCase /\ Code(kase).v = "accept" => IsOriginal(kase)
\* the honest payload with the header's own app version is accepted
HonestAccepted == IsCase /\ IsOriginal(kase) /\ kase.app = kase.happ => Code(kase).v = "accept"
\* sanity of the case space: the only original payloads are the honest one and "all of B" under B's header
OriginalsKnown == IsCase /\ IsOriginal(kase) =>
                    \/ kase.m.kind = "honest" /\ kase.hdr = Hdr("A", kase.k, "none")
                    \/ kase.m.kind = "allB" /\ kase.hdr = Hdr("B", kase.k, "none")
                    \/ kase.m.kind = "allpad" /\ kase.m.f = "none" /\ kase.hdr = Hdr("E", 1, "none")
=============================================================================
