--------------------------- MODULE MC_PoolTracker ---------------------------
EXTENDS PoolTracker
View == <<hd, pools, vpk, vp, tasks, initTask, arrived, expired, quiet, ev>>
MinH == CHOOSE h \in Up : \A k \in Up : h <= k
XH == [h \in Heights |-> IF h = MinH THEN {h, CHOOSE k \in Heights : k # h} ELSE {h}]   \* one cross-height hash
=============================================================================
