------------------------- MODULE Trace_FailoverProp -------------------------
(***************************************************************************)
(* impl -> spec, property layer.  The recorded events only feed the        *)
(* observation history; an event after which a clause of the statement is  *)
(* false is not accepted (the clause is printed).  A rejection here is a   *)
(* violation of C44; a rejection by Trace_Failover alone is drift.         *)
(***************************************************************************)
EXTENDS FailoverProp, Json, IOUtils, TLC
Rec == ndJsonDeserialize(IOEnv.TRACE)
VARIABLE l
tvars == <<pvars, l>>
E == Rec[l]

Judge == Violated' = "" \/ (PrintT(<<"CLAUSE", Violated'>>) /\ FALSE)

TStep ==
    /\ l <= Len(Rec) /\ l' = l + 1
    /\ LET nm == E.name IN
       \/ nm = "reset" /\ E.n \in 1..8 /\ n' = E.n
                       /\ att' = [c \in Calls |-> <<>>] /\ st' = [c \in Calls |-> "idle"]
                       /\ solo' = [c \in Calls |-> FALSE] /\ must' = [c \in Calls |-> <<>>] /\ pred' = <<>>
       \/ nm = "start" /\ E.c \in Calls /\ ObsStart(E.c)
       \/ nm = "att"   /\ E.c \in Calls /\ ObsAttempt(E.c, E.e, E.r)
       \/ nm = "end"   /\ E.c \in Calls /\ ObsEnd(E.c, E.r)
    /\ Judge

TInit == PInit(1) /\ l = 1
TSpec == TInit /\ [][TStep]_tvars

Accepted ==
    LET d == TLCGet("stats").diameter IN
    IF d - 1 = Len(Rec) THEN TRUE
    ELSE /\ PrintT(<<"REJECT-AT", d>>)
         /\ PrintT(ToJson(Rec[d]))
         /\ FALSE
=============================================================================
