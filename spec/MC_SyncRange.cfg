CONSTANT N = 7
SPECIFICATION Spec
INVARIANTS BatchAllowed BatchExtends BatchWeak
CHECK_DEADLOCK FALSE
