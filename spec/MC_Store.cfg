CONSTANTS
  N = 4
  K = 3
SPECIFICATION Spec
VIEW View
INVARIANTS SetsInv SegmentsLinked
PROPERTY FailedUnchanged
CHECK_DEADLOCK FALSE
