-------------------------------- MODULE MC_Pruner ------------------------------
EXTENDS Pruner, TLC
CONSTANT N
Cid(h) == {10 * h + 1, 10 * h + 2}
Next == \/ \E g \in SUBSET (1..N) : ComputeBatch(g)
        \/ RemoveNext
        \/ (now < N + 2 /\ Tick)
        \/ \E h \in 1..N : InsertH(h, Cid(h)) \/ MarkH(h) \/ StartSampling(h)
Spec == Init /\ [][Next]_pvars
View == <<stored, sampled, pruned, meta, bstore, now, ongoingD, asked, batch>>
=============================================================================
