----------------------------- MODULE Commitment -----------------------------
(***************************************************************************)
(* C12.  ADR-013 share commitment rules (code: types/src/blob/commitment.rs *)
(* subtree_width, merkle_mountain_range_sizes, Commitment::from_shares;    *)
(* Blob::validate in types/src/blob.rs).                                   *)
(*                                                                         *)
(* Property layer (declarative):                                           *)
(*   Width(n, t)  = the least power of two w with w * t >= n, capped by    *)
(*                  the least power of two q with q * q >= n;              *)
(*   MMR(n, w)    = n div w trees of w leaves followed by the binary       *)
(*                  digits of n mod w in decreasing order.                 *)
(* Algorithmic layer: AlgoWidth / AlgoSizes transcribe the loops of the    *)
(* code.  TLC checks that both agree and the algebra of the partition.     *)
(* The commitment itself is a hash over real bytes: the harness computes   *)
(* it from the emitted partition with its own NMT / RFC-6962 hashing.      *)
(* Validation: the commitment is an injective function of (namespace,      *)
(* data, share version, signer), so any tampering of one of those or of    *)
(* the stored commitment must be rejected, the untouched blob accepted.    *)
(***************************************************************************)
EXTENDS Naturals, Sequences, FiniteSets, TLC

CONSTANTS NMax,        \* share counts 1..NMax
          Thresholds,  \* subtree root thresholds to model-check (the code uses 64 for every app version)
          Dense        \* Gen: every count up to Dense, beyond it only boundary counts

VARIABLE c

RECURSIVE Pow2AtLeast(_, _)
Pow2AtLeast(x, p) == IF p >= x THEN p ELSE Pow2AtLeast(x, 2 * p)
RoundUpPow2(x) == Pow2AtLeast(x, 1)
IsPow2(x) == x >= 1 /\ RoundUpPow2(x) = x
RoundDownPow2(x) == IF IsPow2(x) THEN x ELSE RoundUpPow2(x) \div 2
CeilDiv(a, b) == (a + b - 1) \div b
Min(a, b) == IF a < b THEN a ELSE b

(* ---- property layer ---- *)
Pow2s == {2 ^ k : k \in 0..13}
MinSquare(n) == CHOOSE q \in Pow2s : q * q >= n /\ \A r \in Pow2s : r * r >= n => q <= r
Width(n, t) == LET w == CHOOSE w \in Pow2s : w * t >= n /\ \A r \in Pow2s : r * t >= n => w <= r
               IN Min(w, MinSquare(n))
RECURSIVE BinDesc(_, _)
\* binary digits of x below power p, largest first
BinDesc(x, p) == IF p = 0 THEN <<>>
                 ELSE IF x >= p THEN <<p>> \o BinDesc(x - p, p \div 2) ELSE BinDesc(x, p \div 2)
MMR(n, w) == [k \in 1..(n \div w) |-> w] \o BinDesc(n % w, w \div 2)

(* ---- algorithmic layer ---- *)
RECURSIVE ISqrtCeilFrom(_, _)
ISqrtCeilFrom(n, q) == IF q * q >= n THEN q ELSE ISqrtCeilFrom(n, q + 1)
AlgoMinSquare(n) == RoundUpPow2(ISqrtCeilFrom(n, 0))
AlgoWidth(n, t) ==
    LET s0 == n \div t
        s1 == IF n % t # 0 THEN s0 + 1 ELSE s0
    IN Min(RoundUpPow2(s1), AlgoMinSquare(n))
RECURSIVE AlgoSizes(_, _)
AlgoSizes(total, max) ==
    IF total = 0 THEN <<>>
    ELSE IF total >= max THEN <<max>> \o AlgoSizes(total - max, max)
    ELSE LET p == RoundDownPow2(total) IN <<p>> \o AlgoSizes(total - p, max)

RECURSIVE SumSeq(_)
SumSeq(s) == IF s = <<>> THEN 0 ELSE Head(s) + SumSeq(Tail(s))

(* ---- blobs of exactly n shares (layout constants of Blob.tla) ---- *)
ContCap == 482
FirstCap(s) == IF s = 1 THEN 458 ELSE 478
LenMax(n, s) == FirstCap(s) + (n - 1) * ContCap
LenMin(n, s) == IF n = 1 THEN 1 ELSE LenMax(n - 1, s) + 1

(* ---- validation verdicts ---- *)
Tampers == <<<<"none", "A">>, <<"data_flip", "R">>, <<"data_append", "R">>, <<"data_truncate", "R">>,
             <<"namespace", "R">>, <<"signer", "R">>, <<"share_version", "R">>, <<"commitment", "R">>>>

Init == c \in {[n |-> n, t |-> t] : n \in 1..NMax, t \in Thresholds}
Next == UNCHANGED c

\* (LET bindings are evaluated once per state; top-level definitions would be re-evaluated at every use)
Agree == LET w == Width(c.n, c.t) IN AlgoWidth(c.n, c.t) = w /\ AlgoSizes(c.n, w) = MMR(c.n, w)
Algebra ==
    LET w == Width(c.n, c.t)
        p == MMR(c.n, w)
        full == c.n \div w
    IN /\ IsPow2(w) /\ w >= 1
       /\ \A k \in 1..Len(p) : IsPow2(p[k]) /\ p[k] <= w
       /\ \A k \in 1..(Len(p) - 1) : p[k] >= p[k + 1] /\ (p[k] < w => p[k] > p[k + 1])   \* below the width: strictly decreasing
       /\ SumSeq(p) = c.n
       /\ Len(p) >= 1
       \* ADR-013: the number of subtree roots stays near the threshold: at most t full trees unless the
       \* width is capped by the square size, and fewer than log2(w) + 1 small ones
       /\ (w = RoundUpPow2(CeilDiv(c.n, c.t))) => full <= c.t
       /\ Len(p) - full <= 13
       \* never wider than the smallest square holding the blob
       /\ w <= MinSquare(c.n) /\ MinSquare(c.n) * MinSquare(c.n) >= c.n
LensOK == \A s \in {0, 1} : LenMin(c.n, s) <= LenMax(c.n, s) /\ LenMin(c.n, s) >= 1

Boundary(n, t) ==
    \/ n <= Dense
    \/ n = NMax
    \/ Width(n, t) # Width(n + 1, t) \/ (n > 1 /\ Width(n, t) # Width(n - 1, t))
    \/ (n % Width(n, t)) \in {0, 1, Width(n, t) - 1}
    \/ IsPow2(n) \/ IsPow2(n + 1) \/ IsPow2(n - 1)
=============================================================================
