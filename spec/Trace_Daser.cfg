CONSTANTS
  Lim = 2
  Extra = 1
  Threshold = 512
  MaxSamples = 16
  WSamp = 12
SPECIFICATION TSpec
INVARIANTS MarkedOnlyAfterAll MetaCoversOngoing SharesOk StartOk ConcurrencyBound
POSTCONDITION Accepted
CHECK_DEADLOCK FALSE
