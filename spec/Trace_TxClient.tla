--------------------------- MODULE Trace_TxClient ---------------------------
(***************************************************************************)
(* impl -> spec, algorithmic layer.  Recorded node-side events drive the   *)
(* actions of TxClient with the recorded answers; the logged signed        *)
(* sequence and the logged identity of the broadcast bytes must be what    *)
(* the action produces.  Internal steps (account known, queueing, grant /  *)
(* roll-back) consume no event.  Register 1 = furthest event reached.      *)
(* Byte strings are numbered by the harness in order of first appearance;  *)
(* `txid` maps the model's Tx(s, q) to that number.                        *)
(***************************************************************************)
EXTENDS TxClient, Json, IOUtils, TLC
Rec == ndJsonDeserialize(IOEnv.TRACE)
VARIABLES l, txid
tvars == <<vars, l, txid>>
E == Rec[l]

Reach(k) == TLCSet(1, IF TLCGet(1) < k THEN k ELSE TLCGet(1))

\* the bytes signed by s with q are known under the recorded number, or are new
SameBytes(s, q, t) == IF Tx(s, q) \in DOMAIN txid THEN txid[Tx(s, q)] = t
                      ELSE \A k \in DOMAIN txid : txid[k] # t
Learn(s, q, t) == txid' = IF Tx(s, q) \in DOMAIN txid THEN txid ELSE [k \in DOMAIN txid \cup {Tx(s, q)} |-> IF k = Tx(s, q) THEN t ELSE txid[k]]

Code(a) == IF a = "rejected-seq" THEN "seq" ELSE IF a = "rejected-other" THEN "other" ELSE ""
SA(a)   == IF a \in {"rejected-seq", "rejected-other"} THEN "rejected" ELSE a

TStep ==
    \/ /\ l <= Len(Rec) /\ l' = l + 1
       /\ LET nm == E.name IN
          \/ nm = "reset"  /\ PReset /\ seq' = None /\ lock' = 0 /\ lockq' = <<>>
                           /\ pc' = [s \in Subs |-> "idle"] /\ mytx' = [s \in Subs |-> <<>>]
                           /\ res' = [s \in Subs |-> ""] /\ fuel' = Fuel /\ txid' = <<>>
          \/ nm = "block"  /\ UNCHANGED <<vars, txid>>              \* the honest node made a block: no client step
          \/ nm = "begin"  /\ E.s \in Subs /\ Begin(E.s) /\ UNCHANGED txid
          \/ nm = "acct"   /\ (\E s \in Subs : Acct(s, E.q)) /\ UNCHANGED txid
          \/ nm = "est"    /\ E.s \in Subs /\ pc[E.s] = "est" /\ seq = E.q /\ Est(E.s, E.ans, E.e) /\ UNCHANGED txid
          \/ nm = "bcast"  /\ E.s \in Subs /\ pc[E.s] = "sign" /\ seq = E.q /\ SameBytes(E.s, E.q, E.tx)
                           /\ Bcast(E.s, E.ans, E.e) /\ Learn(E.s, E.q, E.tx)
          \/ nm = "bcast"  /\ E.s \in Subs /\ pc[E.s] = "rebc" /\ mytx[E.s][2] = E.q
                           /\ SameBytes(E.s, E.q, E.tx) /\ Tx(E.s, E.q) \in DOMAIN txid
                           /\ Rebcast(E.s, E.ans, E.e) /\ UNCHANGED txid
          \/ nm = "status" /\ E.s \in Subs /\ pc[E.s] = "conf" /\ txid[mytx[E.s][1]] = E.tx
                           /\ Status(E.s, SA(E.ans), Code(E.ans)) /\ UNCHANGED txid
          \/ nm = "end"    /\ E.s \in Subs /\ pc[E.s] = "ret" /\ res[E.s] = E.ans /\ Return(E.s) /\ UNCHANGED txid
       /\ Reach(l + 1)
    \/ /\ l <= Len(Rec) /\ UNCHANGED <<l, txid>>
       /\ Internal

TInit == AInit /\ l = 1 /\ txid = <<>> /\ TLCSet(1, 1)
TSpec == TInit /\ [][TStep]_tvars

Accepted ==
    LET d == TLCGet(1) IN
    IF d = Len(Rec) + 1 THEN TRUE
    ELSE /\ PrintT(<<"REJECT-AT", d>>)
         /\ PrintT(ToJson(Rec[d]))
         /\ FALSE
=============================================================================
