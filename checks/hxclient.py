"""C31 (network head selection follows the best-head rule) and C32 (header-ex requests are retried
boundedly and answered once).

spec/HxClientProp.tla  property layer: a monitor (pure operators on a record) over the observable
                       events of the client handler (peer changes, request, cancel, sent, outcome,
                       answer, stop, stepend, quiescent) with one named clause per demand of the
                       two statements.
spec/HxClient.tla      algorithmic layer: HeaderExClientHandler, one action per entry point
                       (on_send_request, schedule_pending_requests, on_response_received /
                       on_failure, poll, on_stop, peer tracker changes, caller cancellation); every
                       action yields its observable events, the monitor is advanced over them and
                       `mon.bad = ""` is an invariant (TLC: the design satisfies C31/C32).
  MC:  exhaustive, focused configurations (C32: one request, 2 peers, peer churn; C31: two head
       callers, 3 peers, 3 palette headers); thorough adds the mixed configuration.
  ->B: Gen_HxClient (TLC simulation) prints behaviours (initial peer sets, environment actions, the
       events the model expects); h-hx drives the real handler (ClientDriver hook: recording
       RequestSender, real PeerTracker, real oneshot callers) through them; per-step differences
       are drift; the observed events are validated by TLC against the monitor
       (Trace_HxClientProp): a rejected event is the violation.
  <-B: seeded random driver (1..10 peers, 1..8 callers, stop, cancellation, churn) recorded and
       validated by the same trace specification.
"""
import glob
import json
import os
import re
import vf

PROPS = ["C31", "C32"]

ENTRIES = {
    "C31": {
        "text": "The best-head rule, 'only connected trusted peers', 'answer only when the round is complete' and "
                "'all waiting callers get the same header in the same step' are clauses of the monitor "
                "spec/HxClientProp.tla; TLC checks exhaustively that the handler model spec/HxClient.tla (fan-out, "
                "join, sort by (height, agreement), re-round when no valid report) never trips them for 2 callers x "
                "3 peers x palette {(5,A),(5,B),(6,A)} x {header, invalid, failure}; TLC-simulated behaviours (up to "
                "4 peers, 3-4 callers, 4 headers incl. two-header answers, churn, stop, cancellation) are replayed on "
                "the real HeaderExClientHandler and the observed events are validated by TLC against the monitor; "
                "seeded random runs with up to 10 peers and 8 callers are validated the same way.",
        "design_ref": "7 C31",
        "note": "More than MAX_PEERS (10) connected trusted peers are not exercised. Liveness of head requests is "
                "not demanded (a round without a valid report legitimately answers nobody). Ties between different "
                "headers of equal height and equal agreement may resolve either way.",
        "technique": "TLA+ monitor + algorithmic model (TLC exhaustive); TLC-generated behaviours replayed; TLC trace validation",
    },
    "C32": {
        "text": "Monitor clauses (spec/HxClientProp.tla): at most 3 sends per request, each to a connected peer, the "
                "third to an archival peer, none for cancelled/answered callers or after stop; at most one answer; "
                "Ok carries the only valid response delivered; an error before stop is the error of the last attempt, "
                "that attempt went to an archival peer and no valid response was ignored; once stopped and polled every waiting "
                "caller is answered; at quiescence an unanswered request implies no connected peer of the kind its next "
                "attempt needs. TLC checks the handler model against them exhaustively (1 request x 2 peers x every "
                "outcome sequence over {valid, invalid, not-found, failure} x churn/cancel/stop interleavings), "
                "TLC-simulated behaviours (3 requests, 3 peers) are replayed on the real handler, and the observed "
                "events of replays and of seeded random runs (<= 10 peers) are validated by TLC against the monitor.",
        "design_ref": "7 C32",
        "note": "The liveness clause is checked at quiescent points only (everything in flight answered, polled, and a "
                "schedule round sends nothing); an early final error is accepted if its attempt went to an archival "
                "peer ('at most three').",
        "technique": "TLA+ monitor + algorithmic model (TLC exhaustive); TLC-generated behaviours replayed; TLC trace validation",
    },
}

C31_CLAUSES = {"head-request-to-untrusted-peer", "head-answer-after-stop",
               "head-answer-before-round-complete", "head-answer-violates-best-head-rule",
               "head-callers-got-different-answers", "waiting-head-caller-not-answered"}

MC_CFG = {
    "C32": {"Peers": "{1, 2}", "GetCallers": "{1}", "HeadCallers": "{}", "Callers": "{1}", "Hdrs": "{1}",
            "MaxRounds": 1, "MaxPeerEvents": 2},
    "C31": {"Peers": "{1, 2, 3}", "GetCallers": "{}", "HeadCallers": "{1, 2}", "Callers": "{1, 2}",
            "Hdrs": "{1, 2, 3}", "MaxRounds": 1, "MaxPeerEvents": 0, "HeadOutcomes": '{"hdr", "invalid", "fail"}'},
    "mixed": {"Peers": "{1, 2}", "GetCallers": "{1}", "HeadCallers": "{2}", "Callers": "{1, 2}", "Hdrs": "{1, 3}",
              "MaxRounds": 1, "MaxPeerEvents": 1, "GetOutcomes": '{"valid", "invalid", "notfound", "fail"}',
              "HeadOutcomes": '{"hdr", "invalid", "fail"}'},
}
GEN_CFG = {
    "mixed": {},
    "retry": {"Peers": "{1, 2, 3}", "GetCallers": "{1, 2, 3}", "HeadCallers": "{}", "Callers": "{1, 2, 3}",
              "StopAfter": 100, "MaxSteps": 36},
    "head": {"Peers": "{1, 2, 3, 4, 5}", "GetCallers": "{}", "HeadCallers": "{1, 2}", "Callers": "{1, 2}",
             "Hdrs": "{1, 3, 4}", "HeadOutcomes": '{"hdr", "fail", "fail-timeout"}', "StopAfter": 100, "MaxPeerEvents": 1,
             "MinTrustedConn": 4, "MaxSteps": 26},
}
ACTIONS = ["Request", "Cancel", "Sched", "Respond", "PollStep", "Stop", "PeerConn", "PeerDisc", "PeerArch", "Quiesce"]


def _owner(clause, ev):
    if clause in C31_CLAUSES:
        return "C31"
    if clause in ("sent-to-disconnected-peer", "sent-after-stop") and isinstance(ev, dict) and ev.get("t") == "head":
        return "C31"
    return "C32"


def _last_clause(ck):
    outs = sorted(glob.glob(os.path.join(ck.work, "*Trace_HxClientProp*.out")) +
                  glob.glob(os.path.join(ck.work, "rt*.out")), key=os.path.getmtime)
    for p in reversed(outs):
        m = re.findall(r'<<"CLAUSE", "([^"]*)">>', open(p).read())
        if m:
            return m[-1]
    return "unexplained-event"


def _validate(ck, trace, direction, behaviours=None):
    lines = open(behaviours).read().splitlines() if behaviours else None

    def on_reject(rej, run_lines, idx):
        clause = _last_clause(ck)
        ev = rej["event"] if isinstance(rej["event"], dict) else {}
        if _owner(clause, ev) == ck.prop:
            payload = {"trace": run_lines[:idx + 1], "reject": rej, "clause": clause}
            run = json.loads(run_lines[0]).get("c", 0)
            if lines is not None and run < len(lines):
                b = json.loads(lines[run])
                payload["behaviour"] = json.loads(b) if isinstance(b, str) else b
            ck.violation({"clause": clause, "dir": direction},
                         f"event {idx} of a {direction} run is not allowed by the monitor: clause {clause}: "
                         f"{json.dumps(ev)}", payload)
    cfg = ck.cfg_with("Trace_HxClientProp.cfg")
    return ck.validate_trace_runs("Trace_HxClientProp", cfg, trace, on_reject)


def classify(v):
    return {"clause": v.get("obs", "panic"), "dir": "replay" if "behaviour" in v else "record"}


def run(ck):
    hb = ck.build("h-hx")
    # 1. the design satisfies the monitor, exhaustively
    for name in ([ck.prop] if ck.quick else [ck.prop, "mixed"]):
        cfg = ck.cfg_with("MC_HxClient.cfg", MC_CFG[name], name=f"MC_HxClient_{name}.cfg")
        req = [a for a in ACTIONS if not (name == "C31" and a.startswith("Peer"))] + ([] if name == "C32" else ["Tick"])
        ck.tlc_mc("MC_HxClient", cfg, tag=f"mc_{name}", required_actions=req, timeout=3000)
    # 2. spec -> impl: simulated behaviours replayed, observed events judged by the monitor
    num = 250 if ck.quick else 3000
    for name in ["mixed", "retry" if ck.prop == "C32" else "head"]:
        gcfg = ck.cfg_with("Gen_HxClient.cfg", GEN_CFG[name], name=f"Gen_HxClient_{name}.cfg")
        cases, _ = ck.tlc_gen("Gen_HxClient", gcfg, f"beh_{name}.ndjson", tag=f"gen_{name}",
                              simulate=(num, 45), timeout=600 if ck.quick else 3000, count_stats=False)
        # drop duplicates
        seen, uniq = set(), f"{ck.work}/beh_{name}.uniq.ndjson"
        with open(uniq, "w") as f:
            for ln in open(cases):
                if ln not in seen:
                    seen.add(ln)
                    f.write(ln)
        trace = f"{ck.work}/replay_{name}.trace.ndjson"
        s = ck.harness(hb, ["replay", "hxclient", uniq, "--out", trace], f"replay_{name}")
        ck.absorb(s, classify)
        _validate(ck, trace, "replay", uniq)
        # the same environment sequences under production-like driving: schedule_pending_requests only
        # when the handler asks for it, otherwise only its own timers / wakers (paused clock)
        trace = f"{ck.work}/replay_{name}_auto.trace.ndjson"
        s = ck.harness(hb, ["replay", "hxclient", uniq, "--out", trace, "--auto", 1], f"replay_{name}_auto")
        ck.absorb(s, classify)
        _validate(ck, trace, "replay-auto", uniq)
    # 3. impl -> spec: seeded random runs
    trace = f"{ck.work}/record.trace.ndjson"
    s = ck.harness(hb, ["record", "hxclient", "--seed", ck.seed, "--runs", 300 if ck.quick else 4000, "--out", trace],
                   "record")
    ck.absorb(s, classify)
    _validate(ck, trace, "record")
    ck.cov["exhaustive"] = False
    ck.cov["rule"] = ("model checking exhaustive in the focused configurations; behaviours are TLC simulations "
                      "(distinct lines) and seeded random runs; non-trivial = distinct behaviour/run in which the "
                      "environment answered >= 1 request of the property's kind (replay) resp. >= 2 requests of that "
                      "kind were sent (record)")
    ck.assumptions += ["peer choice among candidates is the handler's (random); the monitor only demands membership",
                       "every handler entry call is followed by polling the callers' receivers (stepend)",
                       "the harness polls the handler to quiescence in a `poll` step (paused tokio clock)",
                       "production-like runs (every other recorded run, and a second replay of every TLC behaviour): "
                       "the handler is polled until Pending after each environment action, then woken only by its own "
                       "timers/wakers; schedule_pending_requests is called only on Event::SchedulePendingRequests; "
                       "`quiescent` is emitted when the handler fell asleep (nothing woke it for 250 ms of virtual "
                       "time) and every sent request has been answered by the environment"]


def replay(ck):
    hb = ck.build("h-hx")
    d = json.load(open(ck.replay))
    cfg = ck.cfg_with("Trace_HxClientProp.cfg")
    beh = []
    auto = ["--auto", 1] if d["class"].get("dir") == "replay-auto" else []
    for i, it in enumerate(d["items"]):
        c = it["case"]
        if isinstance(c.get("behaviour"), dict):
            beh.append(c["behaviour"])      # run the real handler again on the TLC behaviour
        elif "trace" in c:
            p = f"{ck.work}/replay_trace{i}.ndjson"
            open(p, "w").write("\n".join(c["trace"]) + "\n")
            ok, rej = ck.tlc_trace("Trace_HxClientProp", cfg, p, tag=f"rt{i}")
            if not ok:
                clause = _last_clause(ck)
                ck.violation({"clause": clause, "dir": d["class"].get("dir")},
                             f"recorded trace rejected again: clause {clause}", c)
    if beh:
        cases = f"{ck.work}/replay_beh.ndjson"
        with open(cases, "w") as f:
            for b in beh:
                f.write(json.dumps(b) + "\n")
        trace = f"{ck.work}/replay_beh.trace.ndjson"
        s = ck.harness(hb, ["replay", "hxclient", cases, "--out", trace] + auto, "replay")
        ck.absorb(s, classify)
        _validate(ck, trace, d["class"].get("dir") or "replay", cases)
