"""C24: the syncer's batch selection (calculate_range_to_fetch).

spec/SyncRange.tla: CalcRange (algorithmic layer, transcription) and Allowed (the statement).
MC_SyncRange: TLC checks CalcRange \\in Allowed and Extends (admissible for insertion) for every
synced set over 1..N, head 0..N+1, limit 0..N+1 inside the worker's domain head >= max(synced).
Gen_SyncRange: per case the complete set of allowed batches; h-node replays each case on the real
function (hook) under identity and top-of-u64 embeddings: result must be in the allowed set
(VIOLATION otherwise), a difference from the transcribed algorithm is DRIFT.
"""
import json
import vf

PROPS = ["C24"]
ENTRIES = {
    "C24": {
        "text": "TLC proves on the model that the transcribed batch function satisfies the statement for every synced "
                "set over 1..N, head and limit (N=6 quick, 9 thorough), and emits for each case the full set of batches "
                "the statement allows; the real calculate_range_to_fetch is run on every case under two embeddings "
                "(identity, shifted to the top of u64 with the prefix synced) and must return an allowed batch.",
        "design_ref": "7 C24",
        "note": "Cases with head below the highest synced height are outside the syncer's domain (try_init inserts the "
                "network head, header-sub only raises it); there only disjointness, bound and contiguity are "
                "demanded. The end-to-end FetchingHeadersStarted events of the real Syncer are judged with the same "
                "relation (Trace_Syncer invariant FetchAllowed), in this check and in C25/C38; SyncerFetch.tla checks the "
                "same relation when the pruner removes headers between the worker's store reads (the reversed read order "
                "is refuted), and the recorded runs inject such removals into the real worker.",
        "technique": "TLA+ relation + TLC exhaustive table replayed into Rust (spec->impl)",
    },
}


def classify(v):
    return v.get("class", {})


def run(ck):
    n = 6 if ck.quick else 9
    hb = ck.build("h-node")
    ck.tlc_mc("MC_SyncRange", ck.cfg_with("MC_SyncRange.cfg", {"N": n}), required_actions=["Fetch"])
    cases, _ = ck.tlc_gen("Gen_SyncRange", ck.cfg_with("Gen_SyncRange.cfg", {"N": n}), "cases.ndjson",
                          count_stats=False, timeout=3000)
    s = ck.harness(hb, ["replay", "syncrange", cases, "--n", n], "replay")
    ck.absorb(s, classify)
    # end to end: the batches the real Syncer worker requests (FetchingHeadersStarted) must satisfy the same
    # relation with respect to the store and subjective head at request time (Trace_Syncer, FetchAllowed)
    from checks import syncer as sy
    # ... also when the pruner removes a header between the worker's reads (SyncerFetch.tla; the recorded runs
    # inject such removals through the store wrapper)
    sy.mc_fetch_section(ck)
    sy.record_validate(ck, hb, combos=sy.COMBOS_QUICK if ck.quick else sy.COMBOS_THOROUGH[:4])
    ck.cov["exhaustive"] = True
    ck.cov["rule"] = ("every (synced set, head, limit) over 1..N x 2 embeddings; non-trivial = in-domain case whose "
                      "synced set has >= 2 runs")


def replay(ck):
    hb = ck.build("h-node")
    d = json.load(open(ck.replay))
    cases = f"{ck.work}/replay_cases.ndjson"
    with open(cases, "w") as f:
        for it in d["items"]:
            f.write(json.dumps(it["case"]["case"]) + "\n")
    s = ck.harness(hb, ["replay", "syncrange", cases, "--n", 9], "replay")
    ck.absorb(s, classify)
