"""C37: header subscriptions deliver a gap-free increasing stream.

spec/Subscriptions.tla mirrors BroadcastingStore (last sent height, pending ranges, re-init) on
top of the store's admission rule.  MC_Subscriptions: TLC explores every order of
initialisations / re-initialisations (stale, equal, newer heads) and announced ranges
(above, historical, inadmissible) over heights 1..N with invariants Consecutive, OnlyStored,
LastSentOk, Complete (after an accepted non-historical insert everything announced without a gap
has been delivered) and NotAhead.
<-B: the real BroadcastingStore over an InMemoryStore, driven like the syncer drives it (random
partitions of head0+1..top announced in shuffled order, historical inserts, re-initialisations),
with a real subscriber task; Trace_Subscriptions replays the operations through the model's
actions (store admission, result) and judges the REAL delivery stream with the property.
"""
import json
import vf

PROPS = ["C37"]
ENTRIES = {
    "C37": {
        "text": "TLC checks the BroadcastingStore model for every operation order over heights 1..N (N=6 quick, 7 "
                "thorough); recorded runs of the real BroadcastingStore with a real broadcast subscriber (partitions of "
                "up to 120/300 heights in shuffled order, historical inserts, re-initialisations) are validated by "
                "Trace_Subscriptions, which evaluates the statement (consecutive from the initial head, only stored "
                "heights, complete after each accepted insert, never ahead) on the real delivery stream at every step.",
        "design_ref": "7 C37",
        "note": "The subscriber subscribes before the first initialisation and therefore also receives the initial "
                "head itself (the stream starts at head0). Completeness is evaluated after accepted non-historical "
                "inserts (a re-initialisation head adjacent to the last sent height is flushed by the next insert). "
                "Broadcast lag (a subscriber that does not keep up) is reported separately and never occurs with the "
                "cooperative subscriber used.",
        "technique": "TLA+ state machine + TLC exhaustive; TLC trace validation with the property evaluated on the real stream",
    },
}


def run(ck):
    hb = ck.build("h-node")
    n = 6 if ck.quick else 7
    ck.tlc_mc("MC_Subscriptions", ck.cfg_with("MC_Subscriptions.cfg", {"N": n}),
              required_actions=["InitBroadcast", "AnnounceInsert"], timeout=3000)
    # spec -> impl: TLC walks of the model (simulation) performed on the real component
    walks = 120 if ck.quick else 3000
    beh, _ = ck.tlc_gen("Gen_Subscriptions", ck.cfg_with("Gen_Subscriptions.cfg"), "behaviours.ndjson",
                        simulate=(walks, 12), dedupe=True, count_stats=False, timeout=1200)
    rtrace = f"{ck.work}/replay_trace.ndjson"
    s0 = ck.harness(hb, ["replay", "subs", beh, "--out", rtrace], "replay")
    ck.cov["evaluations"] += s0["props"]["C37"]["evaluations"]
    ck.cov["distinct_nontrivial"] += s0["props"]["C37"]["distinct_nontrivial"]
    ck.cov["samples"] += s0["props"]["C37"]["samples"][:2]

    def on_reject0(rej, run_lines, idx):
        ev = rej["event"] if isinstance(rej["event"], dict) else {}
        ck.violation({"kind": "trace-reject", "event": ev.get("name"), "invariant": rej.get("invariant"), "dir": "spec->impl"},
                     f"TLC-generated operation list: event {idx} breaks the subscription property "
                     f"({rej.get('invariant')}): {json.dumps(ev)[:300]}", {"trace": run_lines[:idx], "reject": rej})

    ck.validate_trace_runs("Trace_Subscriptions", ck.cfg_with("Trace_Subscriptions.cfg"), rtrace, on_reject0)
    trace = f"{ck.work}/trace.ndjson"
    runs, nn = (40, 120) if ck.quick else (400, 300)
    s = ck.harness(hb, ["record", "subs", "--seed", ck.seed, "--out", trace, "--runs", runs, "--n", nn], "record")
    p = s["props"]["C37"]
    ck.cov["evaluations"] += p["evaluations"]
    ck.cov["distinct_nontrivial"] += p["distinct_nontrivial"]
    ck.cov["samples"] += p["samples"][:3]
    for line in open(trace):
        if '"name":"lagged"' in line:
            ck.violation({"kind": "lagged"}, "subscriber lagged although it was scheduled after every send", json.loads(line))

    def on_reject(rej, run_lines, idx):
        ev = rej["event"] if isinstance(rej["event"], dict) else {}
        ck.violation({"kind": "trace-reject", "event": ev.get("name"), "invariant": rej.get("invariant")},
                     f"event {idx} breaks the subscription property ({rej.get('invariant')}): {json.dumps(ev)[:300]}",
                     {"trace": [l for l in run_lines[:idx] if '"lagged"' not in l], "reject": rej})

    # "lagged" marker lines are not model events
    clean = f"{ck.work}/trace.clean.ndjson"
    with open(clean, "w") as f:
        for line in open(trace):
            if '"name":"lagged"' not in line:
                f.write(line)
    ck.validate_trace_runs("Trace_Subscriptions", ck.cfg_with("Trace_Subscriptions.cfg"), clean, on_reject)
    ck.cov["rule"] = ("one evaluation = one recorded run (initial head, shuffled partition, historical inserts, "
                      "re-initialisations); non-trivial = run with >= 1 historical insert, >= 1 re-initialisation and "
                      ">= 1 insert that had to wait in the pending list")


def replay(ck):
    d = json.load(open(ck.replay))
    cfg = ck.cfg_with("Trace_Subscriptions.cfg")
    for i, it in enumerate(d["items"]):
        c = it["case"]
        if "trace" not in c:
            continue
        p = f"{ck.work}/replay_trace{i}.ndjson"
        open(p, "w").write("\n".join(c["trace"]) + "\n")
        ok, rej = ck.tlc_trace("Trace_Subscriptions", cfg, p, tag=f"rt{i}")
        if not ok:
            ck.violation({"kind": "trace-reject"}, json.dumps(rej)[:300], {"trace": c["trace"], "reject": rej})
    ck.cov["evaluations"] = len(d["items"])
    ck.cov["distinct_nontrivial"] = len(d["items"])
