"""C06 (namespace data sound and complete), C05 (row retrieval), C08 (the extended square is a 2-D
erasure code) -- the data-retrieval containers over the abstract square.

  C06  spec/SqNs.tla: every sorted assignment of a 5-namespace palette to the ODS (K=1,2), every target
       namespace (present, absent in range, out of range below/above, reserved, parity); the honest
       namespace data with one edit (drop/add/duplicate/reorder row entries, drop/add a share with the
       genuine proof of the new range, substitute another namespace or row, presence<->absence, altered
       share).  Demand: honest accepted, content different from the brute-force scan rejected.
  C05  spec/SqRow.tla: every row index, left and right half encodings, edits of the transmitted half.
  C08  spec/SqEds.tla: shape-validation decision table of new/from_ods; all erasure patterns of an axis.
Each Gen_ module prints the cases with the demanded verdict; h-square builds them on real squares
(real Reed-Solomon, real nmt-rs proofs), goes through the wire encodings and compares.
"""
import json
import vf

PROPS = ["C05", "C06", "C08"]

ENTRIES = {
    "C06": {
        "text": "TLC enumerates every row-major-sorted assignment of a 5-namespace palette (two reserved) to a 1x1 and "
                "2x2 ODS, every target namespace (present, absent inside a row's range, below/above every range, "
                "parity) and, for the honest namespace data, one edit out of: drop / duplicate / reorder / add a row "
                "entry, drop or add a boundary share together with the genuine NMT proof of the new range, substitute "
                "the entry of another namespace or another row, presence<->absence swap, altered share; and single rows -- RowNamespaceData::verify(id(row, namespace)) for every row whether or not its root range covers the namespace, with the row's or a foreign absence / presence proof combined with shares of that namespace taken from any row. The spec's "
                "brute-force scan decides the verdict (honest accepted; content different from the scan rejected) and "
                "TLC checks the verifier design (row count + per-row complete-namespace contract) against it. Cases "
                "are concretised on real squares of widths 4..16 (..32 thorough) whose ODS cells are scaled to blocks, "
                "with real nmt-rs range/absence proofs, through RowNamespaceData encode/decode, NamespaceData::from_raw "
                "and verify, and NamespaceData::verify called directly on in-memory rows that did not pass from_raw(id); ExtendedDataSquare::get_namespace_data must equal the scaled scan and verify.",
        "design_ref": "7 C06",
        "note": "The per-row complete-namespace check is nmt-rs' (trusted dependency, exercised but modelled only by its "
                "contract under collision-freeness). One edit per construction; proofs are genuine proofs of other "
                "ranges, not arbitrary bytes.",
        "technique": "TLA+ spec of the abstract square and scan; TLC exhaustive case enumeration with verdicts replayed into Rust",
    },
    "C05": {
        "text": "TLC enumerates, for K=1,2,4, every row index (data and parity half), both transmitted halves and the edits "
                "of the half (altered share, swap, duplicate, share or whole half of another row, other half, wrong side "
                "label, short/long half) and in-memory rows handed to Row::verify directly (the committed row plus one surplus share, a duplicated tail, a whole extra half, the row twice; rows one share short, the data half only, empty; swaps, altered shares, other rows) over spec/SqRow.tla, where Reed-Solomon extension/reconstruction is axiomatic; "
                "the spec demands accept for the honest half and reject otherwise. Each case is concretised on real "
                "squares of widths 2..64 (..128 thorough) under three coordinate scalings, sent through Row encode / "
                "Row::decode (leopard encode for the left half, reconstruct for the right half) and Row::verify (also on a Row "
                "decoded under another row's id, and Row::new(j).verify(id of i) for every j); an "
                "accepted row must also be byte-identical to the committed row.",
        "design_ref": "7 C05",
        "note": "The shrex ResponseCodec wrapper is not exercised. Width 2 squares hold four equal shares; reject "
                "demands are not enforced there.",
        "technique": "TLA+ spec with axiomatic erasure code; TLC exhaustive case enumeration replayed into Rust",
    },
    "C08": {
        "text": "Model checking: TLC checks the shape-validation decision table of spec/SqEds.tla (order of checks of "
                "ExtendedDataSquare::new / from_ods against the statement: square, power-of-two width within the app "
                "version's bounds, share size, namespaces sorted along rows and columns; one inversion at every line and every position of the original quadrant for ODS widths 2, 4, 8) over candidate widths incl. "
                "0, non-powers, the maximum, twice the maximum, counts off by one, and one defect; every row of the "
                "table is replayed on the real constructors. Exploration: for every accepted original square the first "
                "quadrant is compared and every row and column is re-encoded with leopard; all subsets of the 2K "
                "positions (K=1,2,4; C(8,4)=70 halves) generated by TLC are replayed, block-scaled and under a seeded "
                "permutation, on every row and column of real squares of width 2..64 with leopard reconstruct, which "
                "must return the committed axis for every subset of at least half.",
        "design_ref": "7 C08",
        "note": "The algebraic fact (any half reconstructs the axis) is an axiom of the model and is established only "
                "for the enumerated/sampled patterns on the generated squares (exploration, not proof). from_ods with "
                "more than the maximum width is replayed in the thorough tier only (it extends before validating).",
        "technique": "TLA+ decision table checked by TLC and replayed; TLC-enumerated erasure patterns replayed on the real codec",
    },
}


def classify(v):
    return v.get("class", {})


def _dedupe(path):
    seen, out = set(), []
    for ln in open(path):
        if ln not in seen:
            seen.add(ln)
            out.append(ln)
    open(path, "w").writelines(out)


def _gen(ck, module, ks, mc_actions, extra=None):
    cases = []
    for k in ks:
        ov = dict({"K": k}, **(extra or {}))
        mc = ck.cfg_with(f"MC_{module}.cfg", ov, name=f"MC_{module}_k{k}.cfg")
        ck.tlc_mc(f"MC_{module}", mc, tag=f"mc_k{k}", required_actions=mc_actions)
        gen = ck.cfg_with(f"Gen_{module}.cfg", ov, name=f"Gen_{module}_k{k}.cfg")
        p, _ = ck.tlc_gen(f"Gen_{module}", gen, f"cases_k{k}.ndjson", tag=f"gen_k{k}", count_stats=False)
        _dedupe(p)
        cases.append(p)
    allc = f"{ck.work}/cases.ndjson"
    with open(allc, "w") as f:
        seen = set()
        for p in cases:
            for ln in open(p):
                if ln not in seen:
                    seen.add(ln)
                    f.write(ln)
    return allc


def run(ck):
    hb = ck.build("h-square")
    ck.assumptions.append("hash functions are collision-free; concrete shares of a square are pairwise distinct (checked)")
    if ck.prop == "C06":
        allc = _gen(ck, "SqNs", (1, 2), ["Honest", "RowEdit", "ShareEdit", "Substitute", "SingleRow"])
        dev = ck.cfg_with("MC_SqNs.cfg", {"K": 2, "Complete": "FALSE"}, name="MC_SqNs_incomplete.cfg")
        r = ck.tlc_mc("MC_SqNs", dev, tag="mc_incomplete", expect_violation="NsSound")
        if not r.get("expected_violation_reproduced"):
            raise vf.ToolError("model insensitive: dropping the completeness check does not violate NsSound")
        widths = "4,8,16" if ck.quick else "4,8,16,32"
        s = ck.harness(hb, ["replay", "sqns", allc, "--seed", ck.seed, "--widths", widths], "replay")
        ck.cov["rule"] = ("every (square, target namespace, edit) generated by TLC for K=1,2 at each width and block "
                          "offset, plus get_namespace_data against the scan per (square, target, width); non-trivial = "
                          "distinct (case, width, offset) whose demanded verdict is accept or reject")
    elif ck.prop == "C05":
        allc = _gen(ck, "SqRow", (1, 2, 4), ["Honest", "Edit", "FullRow"])
        widths = "2,4,8,16,32,64" if ck.quick else "2,4,8,16,32,64,128"
        s = ck.harness(hb, ["replay", "sqrow", allc, "--seed", ck.seed, "--widths", widths], "replay")
        ck.cov["rule"] = ("every (row index, side, edit) generated by TLC for K=1,2,4 at each width under up to 3 "
                          "scalings; non-trivial = distinct (case, width, scaling) with demanded verdict accept/reject")
        ck.assumptions.append("Reed-Solomon extension/reconstruction is injective on halves (MDS axiom of the model)")
    else:
        allc = _gen(ck, "SqEds", (1, 2, 4), ["Shape", "Erasure"])
        widths = "2,4,8,16,32,64"
        s = ck.harness(hb, ["replay", "sqeds", allc, "--seed", ck.seed, "--widths", widths, "--tier", ck.tier],
                       "replay", timeout=3000)
        ck.cov["rule"] = ("shape: every row of the decision table (api x width candidate x count off-by-one x defect); "
                          "erasure: every subset of 2K positions (K=1,2,4) x width x {block, permuted} x line; "
                          "non-trivial = shape rows + reconstructions from at least half")
        ck.cov["levels"] = {"decision_table": "model_checking", "erasure_algebra": "exploration"}
        ck.assumptions.append("MDS property of the Leopard Reed-Solomon code is an axiom of the model; the replay "
                              "establishes it only for the generated squares and patterns")
    ck.absorb(s, classify)
    ck.cov["exhaustive"] = True


def replay(ck):
    hb = ck.build("h-square")
    d = json.load(open(ck.replay))
    cases = f"{ck.work}/replay_cases.ndjson"
    widths = set()
    with open(cases, "w") as f:
        for it in d["items"]:
            c = it["case"]
            f.write(json.dumps(c["case"]) + "\n")
            if "width" in c:
                widths.add(str(c["width"]))
    model = {"C06": "sqns", "C05": "sqrow", "C08": "sqeds"}[ck.prop]
    s = ck.harness(hb, ["replay", model, cases, "--seed", d.get("seed", ck.seed), "--widths",
                        ",".join(sorted(widths)) or "4", "--tier", "thorough"], "replay")
    ck.absorb(s, classify)
