"""C40 (shrex peer pools contain only peers that announced the right data).

spec/PoolTracker.tla: add_peer_for_hash, remove_peer, poll (events first, then one finished header task:
subjective head update + eviction + validate_pool, or validation timeout), header arrival and the 120 s
timeout as environment actions; get_pool as a state function.  Data hash of height h = h (distinct per height).
  MC:   invariants OldDropped, NoPanic (+ the code's stricter OldDroppedAtTen), action properties
        OfferedAnnounced, OwedBlocked; the pre-fix behaviour (DupValidated = "accept") must violate OwedBlocked.
  ->B:  Gen_PoolTracker (BFS): every transition of the deterministic fragment with the shortest path to its
        source state, replayed on a fresh real tracker (gated store, paused clock), last step compared;
        thorough: a random 1/8 of the transitions of 2 peers x heights {-12,1,11,12} as well.
  <-B:  seeded histories (6 peers x 20 heights) logged step by step, validated by Trace_PoolTracker.
"""
import json
import vf

PROPS = ["C40"]

ENTRIES = {
    "C40": {
        "text": "spec/PoolTracker.tla models the shrex PoolTracker (candidate pools with voters per announced hash, "
                "validated pools keyed by data hash, subjective head, eviction window 10, header tasks, 120 s "
                "validation timeout, event queue drained by poll) with header arrival and time as environment "
                "actions and distinct data hashes per height. TLC checks exhaustively (2 peers, heights {-12,1,11}, thorough {-12,1,2,11}: "
                "around the eviction boundary and one height more than the window below the store's initial head; "
                "notifications may arrive before the first poll has learned that head) that offered peers announced the stored header's hash, that every peer "
                "that announced another hash for a validated height or announced twice is put into a BlockPeers "
                "event, that pools more than ten below the head are gone and that get_pool cannot hit its expect(). "
                "Every transition of the deterministic fragment (2 peers x heights {-12,1,12}) is replayed on the real "
                "tracker over a gated Store and tokio's paused clock via the shortest path to its source state "
                "(thorough: also a random eighth of the transitions over heights {-12,1,11,12}); seeded histories over 6 "
                "peers x 25 heights (20 above, 5 far below the initial head; half of them start with notifications before the first poll) are validated line by line by Trace_PoolTracker.",
        "design_ref": "7 C40",
        "note": "Which of several simultaneously finished header tasks FuturesUnordered yields first is left open by "
                "the model: generated cases keep at most one task ready, recorded histories are matched against any "
                "order. The clock is only advanced after a poll returned Pending (all task timers started). Equal "
                "data hashes at different heights are outside the statement and not exercised. Store errors of "
                "wait_height/get_by_height are not injected.",
        "technique": "TLA+ spec + TLC (invariants, action properties); TLC-generated transitions and behaviours replayed into Rust; TLC trace validation of recorded histories",
    },
}


def classify(v):
    return {"kind": v.get("kind"), "op": v.get("op")}


def _trace(ck, cfg, trace):
    def on_reject(rej, run_lines, idx):
        ev = rej["event"] if isinstance(rej.get("event"), dict) else {}
        small = {k: v for k, v in ev.items() if k != "q"}
        ck.violation({"kind": "trace-reject", "op": ev.get("name")},
                     f"recorded step {idx} of run {json.loads(run_lines[0]).get('run')} is not what spec/PoolTracker.tla "
                     f"allows: {json.dumps(small)} pools={json.dumps({k: v for k, v in ev.get('q', {}).items() if v[0] in ('peers', 'not-validated')})[:300]}",
                     {"kind": "trace-reject", "op": ev.get("name"), "mode": "recorded",
                      "run": json.loads(run_lines[0]).get("run"), "trace": run_lines[:idx], "reject": rej})
    return ck.validate_trace_runs("Trace_PoolTracker", cfg, trace, on_reject)


def run(ck):
    hb = ck.build("h-track")
    # 1. the design
    actions = ["Announce", "RemovePeer", "Arrive", "Advance", "Poll"]
    if ck.quick:
        mc = ck.cfg_with("MC_PoolTracker.cfg", {"Up": "{1, 11}", "Down": "{12}", "MaxEv": 2})   # thorough: {1,2,11}
    else:
        mc = ck.cfg_with("MC_PoolTracker.cfg", {"Up": "{1, 2, 11}", "Down": "{12}", "MaxEv": 2})
    ck.tlc_mc("MC_PoolTracker", mc, required_actions=actions, heap="12g")
    if not ck.quick:   # a deeper event queue on two heights (quick tier: time)
        mc2 = ck.cfg_with("MC_PoolTracker.cfg", {"Up": "{1, 11}", "Down": "{}", "MaxEv": 2}, name="MC_PoolTracker_2h.cfg")
        ck.tlc_mc("MC_PoolTracker", mc2, tag="mc_2h", required_actions=actions)
    asis = ck.cfg_with("MC_PoolTracker.cfg", {"Up": "{1, 11}", "Down": "{}", "DupValidated": '"accept"'}, name="MC_PoolTracker_accept.cfg")
    r = ck.tlc_mc("MC_PoolTracker", asis, tag="mc_accept", expect_violation="OwedBlocked")
    if not r.get("expected_violation_reproduced"):
        raise vf.ToolError("vacuity: accepting a repeated announcement after validation does not violate OwedBlocked")
    # 2. spec -> impl
    gen = ck.cfg_with("Gen_PoolTracker.cfg", {})
    cases, _ = ck.tlc_gen("Gen_PoolTracker", gen, "cases.ndjson", count_stats=False)
    s = ck.harness(hb, ["replay", "pooltracker", cases], "replay")
    ck.absorb(s, classify)
    if not ck.quick:   # a larger scope, one transition in 8 (TLC RandomElement), same replay
        gen3 = ck.cfg_with("Gen_PoolTracker.cfg", {"Up": "{1, 11, 12}", "Down": "{12}", "MaxEv": 1, "Sample": 8}, name="Gen_PoolTracker_3h.cfg")
        cases3, _ = ck.tlc_gen("Gen_PoolTracker", gen3, "cases3.ndjson", tag="gen3", count_stats=False, heap="12g")
        ck.absorb(ck.harness(hb, ["replay", "pooltracker", cases3], "replay3"), classify)
    # 3. impl -> spec
    trace = f"{ck.work}/trace.ndjson"
    s2 = ck.harness(hb, ["record", "pooltracker", "--seed", ck.seed, "--out", trace, "--runs", 12 if ck.quick else 150,
                         "--ops", 400], "record")
    ck.absorb(s2, classify)
    _trace(ck, ck.cfg_with("Trace_PoolTracker.cfg", {}), trace)
    ck.cov["exhaustive"] = True
    ck.cov["rule"] = ("spec->impl: one case per transition of the deterministic fragment (2 peers x heights {-12,1,12}), "
                      "replayed from the initial state along the shortest path; non-trivial = the step changes what "
                      "the tracker shows (announcement accepted while a head exists, or a poll that returns an event / "
                      "handles a header). Simulated behaviours and recorded histories: non-trivial = polls that return "
                      "an event or handle a header.")
    ck.assumptions += ["data hashes differ across heights (as the statement says)",
                       "the header store is the harness' gated view of an InMemoryStore (arrival order chosen by the harness)",
                       "virtual time: tokio paused clock, advanced by 121 s only when every task has been polled"]


def replay(ck):
    """Generated cases are replayed on the current tree; recorded-history findings are reproduced by running the
    same seeded (single-threaded, deterministic) driver again and validating its log."""
    hb = ck.build("h-track")
    d = json.load(open(ck.replay))
    cases = f"{ck.work}/replay_cases.ndjson"
    rerun = False
    with open(cases, "w") as f:
        for it in d["items"]:
            c = it["case"]
            if "case" in c and "path" in c["case"]:
                f.write(json.dumps(c["case"]) + "\n")
            else:
                rerun = True
    if open(cases).read().strip():
        ck.absorb(ck.harness(hb, ["replay", "pooltracker", cases], "replay"), classify)
    if rerun:
        quick = d.get("tier", "quick") == "quick"
        seed = d.get("seed", ck.seed)
        trace = f"{ck.work}/trace.ndjson"
        s2 = ck.harness(hb, ["record", "pooltracker", "--seed", seed, "--out", trace, "--runs", 12 if quick else 150,
                             "--ops", 400], "record")
        ck.absorb(s2, classify)
        _trace(ck, ck.cfg_with("Trace_PoolTracker.cfg", {}), trace)
