"""C33 (sampled only after full success; metadata before requests; share choice) and
C34 (concurrency limits and recency order of the sampler).

spec/Daser.tla mirrors node/src/daser.rs: update_queue, schedule_next_sample_block (limit by
pruner back-pressure / head allowance / normal), the per-block futures (each share answered or
timed out), completion (mark_as_sampled only without time-out), want_to_prune and the pruner's
reports, reconnection.  MC_Daser: TLC explores every interleaving for small constants with
invariants MarkedOnlyAfterAll, MetaCoversOngoing, SharesOk (C33) and StartOk, ConcurrencyBound (C34).
<-B: the real Daser over the mocked P2p and a recording store (store calls logged at call time,
after draining the events and P2p commands emitted before them) under a seeded environment:
samples answered in random order or left to time out (virtual time in 5 s steps), new heads,
back-filled headers, pruner messages, removals, disconnects; square widths 2..8 (thorough ..64).
Trace_Daser drives the same actions and evaluates the invariants on every state.
"""
import json
import vf

PROPS = ["C33", "C34"]
ENTRIES = {
    "C33": {
        "text": "TLC checks the sampler model for every answer order (each share answered or timed out) with the "
                "invariants 'marked only after all chosen shares succeeded', 'metadata covers every requested share' and "
                "'shares distinct, inside the square, min(w^2,16) many'; recorded runs of the real Daser (mock P2p, "
                "recording store, widths 2..8 quick / 2..64 thorough) are validated by Trace_Daser: every GetShwapCid "
                "must follow the update_sampling_metadata call that contains it, every mark_as_sampled must be the "
                "completion of a block whose shares were all served.",
        "design_ref": "7 C33",
        "note": "Sample verification itself happens in the bitswap multihasher (C10), the mock serves valid samples or "
                "nothing. Width 1 squares do not exist (EDS width >= 2).",
        "technique": "TLA+ state machine + TLC; TLC trace validation of the real worker with call-time store recording",
    },
    "C34": {
        "text": "StartOk (fewer than the limit in progress, head allowance only for the newest stored block, the started "
                "block is the highest known eligible height, inside the window, not prunable under back-pressure) is an "
                "invariant of Daser.tla checked by TLC and evaluated on every state of the recorded runs of the real "
                "Daser; a start the model does not allow is rejected.",
        "design_ref": "7 C34",
        "note": "'Known' means known at the last queue update (head change, reconnection), as in the statement. The "
                "back-pressure threshold is the real 512, reached by sending the pruner's reports directly.",
        "technique": "TLA+ invariant by TLC + trace validation of the real worker",
    },
}

COMBOS_QUICK = [(24, 2, 1, 12, "2,4,8"), (20, 1, 0, 20, "2,4"), (30, 3, 2, 8, "2,4,8,16")]
COMBOS_THOROUGH = COMBOS_QUICK + [(40, 3, 5, 30, "2,4,8,16,32,64"), (24, 1, 2, 6, "2,8,32")]
OWNER = {"fatal": "C33", "bad": "C33", "mark": "C33", "req": "C33", "started": "C33", "ans": "C33", "meta": "C34", "result": "C33", "share_to": "C33"}
INV_OWNER = {"MarkedOnlyAfterAll": "C33", "MetaCoversOngoing": "C33", "SharesOk": "C33", "StartOk": "C34",
             "ConcurrencyBound": "C34"}


def run(ck):
    hb = ck.build("h-node")
    if ck.quick:
        ck.tlc_mc("MC_Daser", ck.cfg_with("MC_Daser.cfg", {"N": 2}), timeout=1500,
                  required_actions=["Insert", "RemoveH", "WantToPrune", "Connect", "Disconnect", "Schedule", "ShareOk",
                                    "ShareTimeout", "Complete"])
    else:
        ck.tlc_mc("MC_Daser", ck.cfg_with("MC_Daser.cfg", {"N": 3}), timeout=2400, workers=12,
                  required_actions=["Schedule", "Complete"])
    combos = COMBOS_QUICK if ck.quick else COMBOS_THOROUGH
    runs = 10 if ck.quick else 60
    for i, (n, lim, extra, k, widths) in enumerate(combos):
        trace = f"{ck.work}/trace{i}.ndjson"
        s = ck.harness(hb, ["record", "daser", "--seed", ck.seed + i, "--out", trace, "--runs", runs, "--n", n,
                            "--lim", lim, "--extra", extra, "--wsamp", k, "--widths", widths], f"record{i}", timeout=3000)
        p = s["props"][ck.prop]
        ck.cov["evaluations"] += p["evaluations"]
        ck.cov["distinct_nontrivial"] += p["distinct_nontrivial"]
        ck.cov["samples"] += p["samples"][:2]
        for line in open(trace):
            if '"name":"badreq"' in line:
                ck.violation({"kind": "fatal-or-bad-request"}, line[:300], json.loads(line))
        cfg = ck.cfg_with("Trace_Daser.cfg", {"Lim": lim, "Extra": extra, "WSamp": k}, name=f"Trace_Daser_{i}.cfg")

        def on_reject(rej, run_lines, idx):
            ev = rej["event"] if isinstance(rej["event"], dict) else {}
            inv = rej.get("invariant")
            owner = INV_OWNER.get(inv) or OWNER.get(ev.get("name"))
            if owner is None:
                ck.cov["drift"] += 1
                vf.log(f"DRIFT property={ck.prop} environment event {ev.get('name')} not explained by Daser.tla: "
                       f"{json.dumps(ev)[:200]}")
                return
            if owner == ck.prop:
                ck.violation({"kind": "trace-reject", "event": ev.get("name"), "invariant": inv},
                             f"run {run_lines[0]}: event {idx} ({ev.get('name')}) is not allowed by Daser.tla"
                             f"{' / violates ' + inv if inv else ''}: {json.dumps(ev)[:300]}",
                             {"trace": run_lines[:idx], "reject": rej, "consts": {"Lim": lim, "Extra": extra, "WSamp": k}})

        ck.validate_trace_runs("Trace_Daser", cfg, trace, on_reject)
    ck.cov["rule"] = ("one evaluation = one recorded run of the real Daser; non-trivial = run with >= 3 started blocks, "
                      ">= 1 timed-out block and >= 1 want_to_prune exchange")
    ck.assumptions += ["real clock: header times 100 s apart, window edge 50 s away from any header time",
                       "the pruner is played by the harness: it removes only granted or sampled headers"]


def replay(ck):
    d = json.load(open(ck.replay))
    for i, it in enumerate(d["items"]):
        c = it["case"]
        if "trace" not in c:
            continue
        p = f"{ck.work}/replay_trace{i}.ndjson"
        open(p, "w").write("\n".join(c["trace"]) + "\n")
        cfg = ck.cfg_with("Trace_Daser.cfg", c.get("consts", {}), name=f"rt{i}.cfg")
        ok, rej = ck.tlc_trace("Trace_Daser", cfg, p, tag=f"rt{i}")
        if not ok:
            ck.violation({"kind": "trace-reject"}, json.dumps(rej)[:300], {"trace": c["trace"], "reject": rej})
    ck.cov["evaluations"] = len(d["items"])
    ck.cov["distinct_nontrivial"] = len(d["items"])
