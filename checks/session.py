"""C26 (a header session returns exactly the requested range) and C27 (verified range requests
terminate / never panic).

spec/HeaderSession.tla mirrors HeaderSession::run / take_next_batch.  MC_HeaderSession: TLC
explores every response choice (prefix length 0..amount, header-ex error, fatal error) in every
order for scaled constants (MinAmt 2, MaxAmt 3, MaxConc 2, lengths 1..MaxL) with the monitor
invariants RequestsOk, OutDisjoint, DoneComplete, NothingLost; with ZeroLen = TRUE (the
amount-0 session of C27 as the pinned code started it) RequestsOk is expected to fail.
<-B: the real HeaderSession over the mocked P2p channel under seeded adversarial responders
(random order, prefixes incl. empty, header-ex errors, fatal errors; lengths up to 300 quick /
2000 thorough incl. 64/65/512/513); every request and answer is logged and Trace_HeaderSession
(real constants 8/64/8) must explain the trace and evaluates the monitor at every step.
C27: spec/VerifiedRange.tla gives the table (from height x amount incl. 0 and u64::MAX-k via the
two-block embedding x served/not served) -> demanded outcome; the real
P2p::get_verified_headers_range runs against a responder that answers like the real client.
"""
import json
import vf

PROPS = ["C26", "C27"]
ENTRIES = {
    "C26": {
        "text": "TLC explores all response schedules of the session model for scaled constants and checks the "
                "statement's monitor; recorded runs of the real HeaderSession under seeded adversarial responders "
                "(lengths to 700 quick / 2000 thorough) are validated event by event by Trace_HeaderSession with the "
                "real constants: every request must be the model's, non-empty, <= 64, within not-yet-received "
                "heights; a finished session must return every height once in ascending order.",
        "design_ref": "7 C26, A.4",
        "note": "Responses are prefixes of the request or errors (the statement's assumption). Termination is not "
                "claimed as a temporal property; the driver stops injecting faults after 3L+200 interactions and the "
                "session must then finish ('stuck' events are violations).",
        "technique": "TLA+ state machine + TLC exhaustive (scaled); TLC trace validation of recorded sessions",
    },
    "C27": {
        "text": "VerifiedRange.tla states, for every (from, amount, served) of the table incl. amount 0 and amounts "
                "within 0..1000 of u64::MAX, the outcome the statement demands (prompt return without requests, exact "
                "headers, or merely no panic); the real get_verified_headers_range is executed on every case against "
                "a responder behaving like the real header-ex client; MC_HeaderSession with ZeroLen shows the "
                "zero-amount retry loop in the model.",
        "design_ref": "7 C27",
        "note": "'Promptly' is measured in responder interactions (0), not wall time. Unserved huge amounts may run "
                "forever (not demanded by the statement); they are cut after 400 interactions.",
        "technique": "TLA+ outcome table by TLC replayed into Rust; model-level counterexample for amount 0",
    },
}


def run(ck):
    hb = ck.build("h-node")
    maxl = 9 if ck.quick else 13
    ck.tlc_mc("MC_HeaderSession", ck.cfg_with("MC_HeaderSession.cfg", {"MaxL": maxl}),
              required_actions=["Start", "Respond", "RespondHxErr", "RespondFatal", "Finish"], timeout=3000)
    if ck.prop == "C26":
        trace = f"{ck.work}/trace.ndjson"
        runs, maxlen = (45, 700) if ck.quick else (300, 2000)   # > 512 so that more than 8 batches exist
        s = ck.harness(hb, ["record", "session", "--seed", ck.seed, "--out", trace, "--runs", runs,
                            "--maxlen", maxlen], "record", timeout=3000)
        p = s["props"]["C26"]
        ck.cov["evaluations"] += p["evaluations"]
        ck.cov["distinct_nontrivial"] += p["distinct_nontrivial"]
        ck.cov["samples"] += p["samples"][:3]
        for line in open(trace):
            if '"name":"panic"' in line or '"name":"stuck"' in line:
                ev = json.loads(line)
                ck.violation({"kind": ev["name"]}, f"session {ev['name']}: {line[:200]}", ev)

        def on_reject(rej, run_lines, idx):
            ev = rej["event"] if isinstance(rej["event"], dict) else {}
            ck.violation({"kind": "trace-reject", "event": ev.get("name"), "invariant": rej.get("invariant")},
                         f"event {idx} of session {run_lines[0]} is not a behaviour of HeaderSession.tla / violates "
                         f"the monitor: {json.dumps(ev)[:300]}", {"trace": run_lines[:idx], "reject": rej})

        ck.validate_trace_runs("Trace_HeaderSession", ck.cfg_with("Trace_HeaderSession.cfg"), trace, on_reject,
                               reset_name="start")
        ck.cov["rule"] = ("one evaluation = one recorded session; non-trivial = session that saw >= 1 empty, >= 1 "
                          "partial and >= 1 error response")
    else:
        # the as-is zero-length session in the model (expected counterexample of RequestsOk)
        ck.tlc_mc("MC_HeaderSession", ck.cfg_with("MC_HeaderSession.cfg", {"ZeroLen": "TRUE"}, name="MC_Zero.cfg"),
                  tag="mc_zero", expect_violation="RequestsOk")
        cases, _ = ck.tlc_gen("VerifiedRange", ck.cfg_with("VerifiedRange.cfg"), "cases.ndjson")
        s = ck.harness(hb, ["replay", "vrange", cases], "replay", timeout=3000)
        ck.absorb(s, lambda v: v.get("class", {}))
        ck.cov["exhaustive"] = True
        ck.cov["rule"] = "every (from height, amount, served) of VerifiedRange.cfg; all distinct cases counted"


def replay(ck):
    hb = ck.build("h-node")
    d = json.load(open(ck.replay))
    if ck.prop == "C27":
        cases = f"{ck.work}/replay_cases.ndjson"
        with open(cases, "w") as f:
            for it in d["items"]:
                f.write(json.dumps(it["case"]["case"]) + "\n")
        s = ck.harness(hb, ["replay", "vrange", cases], "replay")
        ck.absorb(s, lambda v: v.get("class", {}))
    else:
        cfg = ck.cfg_with("Trace_HeaderSession.cfg")
        for i, it in enumerate(d["items"]):
            c = it["case"]
            if "trace" not in c:
                continue
            p = f"{ck.work}/replay_trace{i}.ndjson"
            open(p, "w").write("\n".join(c["trace"]) + "\n")
            ok, rej = ck.tlc_trace("Trace_HeaderSession", cfg, p, tag=f"rt{i}")
            if not ok:
                ck.violation({"kind": "trace-reject"}, json.dumps(rej)[:300], {"trace": c["trace"], "reject": rej})
        ck.cov["evaluations"] = len(d["items"])
        ck.cov["distinct_nontrivial"] = len(d["items"])
