"""C23 (redb schema migration preserves the stored / sampled ranges; newer schema refused untouched).

spec/StoreMigration.tla: a database = (schema version, v1 table STORE.HEIGHT_RANGES, table STORE.RANGES);
  Open = version check + Migrate12 + Migrate23.
  MC:  every version 1..5 x stored x sampled sets over 1..N (v1: no sampled; v2 with / without the
       accepted-ranges row; pruned empty or complement; versions 4, 5 with all / some / none of today's
       tables and with / without identity), opened twice; invariants MigrationPreserves,
       NewerRefused, action property Idempotent.
  ->B: Gen_StoreMigration prints each initial database with the outcome the spec demands; h-redb
       writes that database with raw redb calls in the old table layout (real headers included),
       opens it with RedbStore::new (twice), compares the reported ranges / refusal and, for refused
       opens, the complete table contents before and after.
"""
import json
import vf

PROPS = ["C23"]

ENTRIES = {
    "C23": {
        "text": "TLC enumerates every schema version 1..5 with every stored and sampled height set over 1..N "
                "(N=5 quick, 6 thorough; v1 without sampled ranges, v2 with and without the accepted-ranges row) "
                "of spec/StoreMigration.tla, checks that Open preserves the ranges for versions <= 3, refuses and "
                "leaves untouched versions 4 and 5, and is idempotent; each generated database is written with raw "
                "redb calls in the table layout of its version (same TableDefinitions the migration functions "
                "read, real headers for the stored heights, at base 0 and base 2^40), opened twice through "
                "RedbStore::new and the reported stored/sampled ranges, or the refusal plus the complete table "
                "contents before/after, are compared with the spec's expectation.",
        "design_ref": "7 C23",
        "note": "The v1 layout (row per range, keyed by row index or by first height) is reconstructed from what "
                "migrate_v1_to_v2 reads, the original v1 writer is not in the repository. Newer-version databases "
                "are given the v3 layout, a partial one without identity, or only the schema-version table; a "
                "refused open must leave the complete table list and all table contents as they were. Pruned ranges, the stored schema version and left-over old keys are "
                "compared as drift only. Exhaustive in the small scope.",
        "technique": "TLA+ spec + TLC exhaustive case generation replayed into real redb databases",
    },
}


def classify(v):
    return v.get("class", {})


def run(ck):
    n = 5 if ck.quick else 6
    hb = ck.build("h-redb")
    mc_cfg = ck.cfg_with("MC_StoreMigration.cfg", {"N": n})
    ck.tlc_mc("MC_StoreMigration", mc_cfg, required_actions=["Open"], timeout=1500)
    gen_cfg = ck.cfg_with("Gen_StoreMigration.cfg", {"N": n})
    cases, ncases = ck.tlc_gen("Gen_StoreMigration", gen_cfg, "cases.ndjson", count_stats=False, timeout=1500)
    s = ck.harness(hb, ["replay", "migration", cases, "--n", n], "replay", timeout=1500)
    ck.absorb(s, classify)
    ck.cov["cases_generated"] = ncases
    ck.cov["exhaustive"] = True
    ck.cov["rule"] = ("one evaluation = one generated database (version, stored, sampled, pruned, accepted-row "
                      "present) under one embedding (base 0 / 2^40; v1 additionally two row-key styles), opened "
                      "twice; non-trivial = stored set of >= 2 heights, non-empty sampled set, or a newer-version "
                      "database that lacks some of today's tables.")
    ck.assumptions += ["v1 rows are stored in range order (key = row index or first height)",
                       "databases of versions 4 and 5 use the v3 table layout, a part of it (version, headers, ranges "
                       "tables, no identity) or only the schema-version table"]


def replay(ck):
    hb = ck.build("h-redb")
    d = json.load(open(ck.replay))
    cases = f"{ck.work}/replay_cases.ndjson"
    with open(cases, "w") as f:
        for it in d["items"]:
            f.write(json.dumps(it["case"]["case"]) + "\n")
    s = ck.harness(hb, ["replay", "migration", cases, "--n", 6], "replay")
    ck.absorb(s, classify)
