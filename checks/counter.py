"""C41 (closing the redb store waits for in-flight work without hanging).

spec/Counter.tla: CounterGuard::drop = {release count; notify_waiters}, Counter::wait_guards =
{arm Notified; read count; poll/park; re-arm} as separate actions over count, notify epoch, armed epoch.
  MC:   TLC, all interleavings of N guards (incl. guards created while the waiter runs) with the waiter:
        Safety (through => no guard still held), Live (<>[]all dropped => <>through, weak fairness of the
        waiter only).  Two deliberately wrong designs (Deviation) must violate Live - the model can tell.
  ->B:  Gen_Counter prints every behaviour; h-track forces each on real threads through the schedule
        points in counter.rs (a thread runs to its next point only when told), comparing count and the
        waiter's position after every step, then requires the waiter to finish.
  <-B:  unforced runs (threads, blocking pool, tokio tasks; seeded jitter at the points) log every point
        passed with a global sequence number; Trace_Counter accepts a log iff some interleaving of the
        hidden steps explains it.  RedbStore: operations whose callers are aborted / timed out / dropped
        mid-flight (CallerCancel in the model), then close(); the harness' own redb storage backend logs every
        database access of the blocking tasks ("db" lines: a task is running, the waiter is not through).  A waiter that does not return within the bound is a violation.
"""
import json
import vf

PROPS = ["C41"]

ENTRIES = {
    "C41": {
        "text": "spec/Counter.tla models CounterGuard::drop (release count, then notify_waiters) and "
                "Counter::wait_guards (arm Notified, read count, poll/park, re-arm) as separate atomic steps. TLC "
                "checks for every interleaving of up to 3 (thorough 4) guards, including guards created while the "
                "waiter runs, that the waiter gets through only when no guard is still held and, under weak fairness "
                "of the waiter alone, always gets through once all guards finished dropping; a task may end by return or by "
                "panic (the unwinding drops the guard) and a caller may be cancelled; wrong designs (notify before "
                "release, arm after the check, guard owned by the caller, no wake-up on a panic unwind) are shown to fail. Every generated behaviour for "
                "1..3 guards with every combination of returning and panicking tasks (16 / 896 / 79264 behaviours; quick: all for 1 and 2, every 48th for 3; thorough: every 2nd for 3 plus every 16th of the 628088 four-guard behaviours) is forced on real OS threads through cfg(eigerco_lumina_verif) schedule points "
                "inside counter.rs, comparing count and waiter position with the model after each step and "
                "requiring the real waiter to return. Unforced multi-thread runs (std threads, blocking pool, "
                "tokio tasks, seeded jitter at the points) and RedbStore::close after operations whose callers were "
                "aborted / timed out / lost a select! / dropped mid-flight (the model's CallerCancel, which must not "
                "release the count; a storage backend supplied by the harness logs every database access of the "
                "blocking tasks, so 'a task is still running' is observed independently of the guards) are logged with atomically drawn sequence numbers and validated by Trace_Counter; a "
                "wait that does not return within 30/60 s after all guards dropped is a violation.",
        "design_ref": "7 C41, A.5",
        "note": "Forced schedules are exhaustive for the stated guard counts only; beyond that sampled. tokio's "
                "Notify is trusted to deliver notify_waiters to every Notified created earlier (modelled by epochs). "
                "Guards created during the wait exist in the model only: `wait_guards(&mut self)` / `close(self)` "
                "make them impossible in safe Rust. The sequence numbers rely on SeqCst atomics; strong_count's "
                "relaxed load is not separately modelled (x86-TSO host).",
        "technique": "TLA+ spec + TLC (safety, liveness); all TLC behaviours forced on real threads via schedule points; TLC trace validation of logs from unforced multi-thread runs",
    },
}


def classify(v):
    return {"mode": v.get("mode"), "kind": v.get("kind")}


def _validate(ck, cfg, trace, mode):
    def on_reject(rej, run_lines, idx):
        ck.violation({"mode": mode, "kind": "trace-reject"},
                     f"log line {idx} of run {json.loads(run_lines[0]).get('run')} is not explained by any "
                     f"interleaving of spec/Counter.tla: {json.dumps(rej.get('event'))[:200]}",
                     {"mode": mode, "kind": "trace-reject", "trace": run_lines, "reject": rej})
    return ck.validate_trace_runs("Trace_Counter", cfg, trace, on_reject)


def run(ck):
    hb = ck.build("h-track")
    nmax = 3 if ck.quick else 4
    # 1. the design
    mc = ck.cfg_with("MC_Counter.cfg", {"N": nmax})
    ck.tlc_mc("MC_Counter", mc, required_actions=["Create", "G1k", "G2", "CallerCancel", "W0", "W1", "W2", "W3"])
    # the caller owning the guard (a cancelled caller releases the count while its task runs on) must break Safety
    gic = ck.cfg_with("MC_Counter.cfg", {"N": 2, "Deviation": '"guard_in_caller"'}, name="MC_Counter_guard_in_caller.cfg")
    r = ck.tlc_mc("MC_Counter", gic, tag="mc_dev_guard_in_caller", expect_violation="Safety")
    if not r.get("expected_violation_reproduced"):
        raise vf.ToolError("vacuity: wrong design guard_in_caller is not rejected by spec/Counter.tla")
    for dev in ["swap_drop", "arm_after_check", "no_wake_on_panic"]:
        cfg = ck.cfg_with("MC_Counter.cfg", {"N": 3, "Deviation": f'"{dev}"'}, name=f"MC_Counter_{dev}.cfg")
        # (vf.tlc_mc does not recognise TLC's "Temporal property X was violated" wording: parse here)
        rc, out_path, dt = ck._tlc("MC_Counter", cfg, f"mc_dev_{dev}", workers=ck.workers_mc)
        text = open(out_path).read()
        rejected = "Temporal property Live was violated" in text
        ck.cov["tlc_runs"].append({"module": "MC_Counter", "cfg": f"MC_Counter_{dev}.cfg", "rc": rc, "wall_s": round(dt, 1),
                                   "expected_violation": "Live", "expected_violation_reproduced": rejected})
        vf.log(f"[tlc-mc] MC_Counter Deviation={dev}: Live violated as expected = {rejected}, {dt:.1f}s")
        if not rejected:
            raise vf.ToolError(f"vacuity: wrong design {dev} is not rejected by spec/Counter.tla")
    # 2. spec -> impl: every behaviour forced on real threads
    cases = f"{ck.work}/cases.ndjson"
    with open(cases, "w") as out:
        for n in range(1, nmax + 1):
            # every task may end by return or by panic (ExitKinds): 16 / 896 / 79264 behaviours for N = 1 / 2 / 3;
            # N = 4 is generated with returning tasks only (628088 behaviours)
            kinds = '{"return"}' if n >= 4 else '{"return", "panic"}'
            cfg = ck.cfg_with("Gen_Counter.cfg", {"N": n, "ExitKinds": kinds}, name=f"Gen_Counter_{n}.cfg")
            p, _ = ck.tlc_gen("Gen_Counter", cfg, f"cases{n}.ndjson", tag=f"gen{n}", count_stats=False, heap="12g")
            # forced: all behaviours for N <= 2; N = 3: every 48th in the quick tier (a forced run costs 3 ms on an
            # idle machine, 30 ms under load), every 2nd in the thorough tier; N = 4: every 16th
            every = 16 if n >= 4 else ((48 if ck.quick else 2) if n == 3 else 1)
            with open(p) as f:
                for k, line in enumerate(f):
                    if k % every == 0:
                        out.write(line)
            if every > 1:
                ck.cov["coverage_gaps"].append(f"N={n}: every {every}th generated behaviour forced")
            import os
            os.remove(p)
    s = ck.harness(hb, ["replay", "counter", cases], "replay", timeout=3000)
    ck.absorb(s, classify)
    ck.cov["forced_runs_with_drift"] = s.get("extra", {}).get("forced_runs_with_drift")
    # 3. impl -> spec: unforced runs, logs validated by TLC
    tr_cfg = ck.cfg_with("Trace_Counter.cfg", {"N": 24})
    trace = f"{ck.work}/trace.ndjson"
    runs = 1500 if ck.quick else 20000
    s2 = ck.harness(hb, ["record", "counter", "--seed", ck.seed, "--out", trace, "--runs", runs, "--maxguards", 6],
                    "record", timeout=3000)
    ck.absorb(s2, classify)
    ck.cov["guards_dropped_by_panic_unwind"] = s2.get("extra", {}).get("guards_dropped_by_panic_unwind")
    _validate(ck, tr_cfg, trace, "unforced")
    trace2 = f"{ck.work}/trace_redb.ndjson"
    s3 = ck.harness(hb, ["record", "redbclose", "--seed", ck.seed, "--out", trace2, "--runs", 150 if ck.quick else 2000],
                    "redbclose", timeout=3000)
    ck.absorb(s3, classify)
    ck.cov["redb_runs_with_work_in_flight_at_close"] = s3.get("extra", {}).get("redb_runs_with_work_in_flight_at_close")
    ck.cov["redb_callers_cancelled"] = s3.get("extra", {}).get("redb_callers_cancelled")
    # measured by the harness' own storage backend (database accesses after close() was called), not by the
    # guards under test: a tree that releases guards early still counts here and shows up as a VIOLATION
    ck.cov["redb_tasks_panicked"] = s3.get("extra", {}).get("redb_tasks_panicked")
    if not ck.cov["redb_runs_with_work_in_flight_at_close"] or not ck.cov["redb_callers_cancelled"] \
            or not ck.cov["redb_tasks_panicked"] or not ck.cov["guards_dropped_by_panic_unwind"]:
        raise vf.ToolError("vacuity: RedbStore::close was never called with blocking work in flight / cancelled "
                           "callers / a panicking task")
    _validate(ck, tr_cfg, trace2, "redb-close")
    ck.cov["exhaustive"] = True
    ck.cov["rule"] = ("spec->impl: one forced run per behaviour of Gen_Counter (all interleavings of N guards and "
                      "the waiter up to renaming of guards, N = 1..%d); non-trivial = a guard step happens after the "
                      "waiter's first step. impl->spec: one log per unforced run; non-trivial = the waiter started "
                      "before the last guard finished dropping (distinct logs counted); redb: the harness' storage backend saw "
                      "database accesses after close() was called." % nmax)
    ck.assumptions += ["tokio::sync::Notify delivers notify_waiters to every Notified created before the call",
                       "hang bounds: 20 s per forced step / drain, 30 s per unforced wait, 60 s per close()",
                       "guards cannot be created during wait_guards/close in safe Rust (&mut self / self)"]


def replay(ck):
    """Forced cases are forced again on the current tree; findings of the unforced modes are reproduced by
    running the same seeded driver again (same seed, up to the recorded run) and validating its log."""
    hb = ck.build("h-track")
    d = json.load(open(ck.replay))
    seed = d.get("seed", ck.seed)
    cases = f"{ck.work}/replay_cases.ndjson"
    reruns = {}
    with open(cases, "w") as f:
        for it in d["items"]:
            c = it["case"]
            if c.get("mode") == "forced":
                f.write(json.dumps(c["case"]) + "\n")
            else:
                run = c.get("run")
                if run is None and "trace" in c:
                    run = json.loads(c["trace"][0]).get("run", 0)
                mode = c.get("mode")
                reruns[mode] = max(reruns.get(mode, 0), int(run or 0))
    if open(cases).read().strip():
        ck.absorb(ck.harness(hb, ["replay", "counter", cases], "replay"), classify)
    tr_cfg = ck.cfg_with("Trace_Counter.cfg", {"N": 24})
    for mode, run in reruns.items():
        model = "redbclose" if mode == "redb-close" else "counter"
        trace = f"{ck.work}/rerun_{model}.ndjson"
        s = ck.harness(hb, ["record", model, "--seed", seed, "--out", trace, "--runs", run + 1], "rerun_" + model)
        ck.absorb(s, classify)
        _validate(ck, tr_cfg, trace, mode)
