"""C14 (namespaces) and C15 (Shwap identifiers and CIDs).

spec/Formats.tla is an executable reference of both byte formats; TLC checks its internal
consistency (legal forms, total order, reserved ends, encode/decode inverse, a CID is at most one
kind) and emits every case with accept/reject and the decoded value; h-blob runs the real
constructors / decoders / CID conversions on each case, and every round trip on each accepted case.
"""
import json
import vf

PROPS = ["C14", "C15"]

ENTRIES = {
    "C14": {
        "text": "spec/Formats.tla states the legal namespace forms (version 0 + 18 zero id bytes, version 255 + 27 "
                "0xff id bytes), lexicographic order and the reserved rule as predicates on byte sequences. TLC "
                "enumerates every version byte 0..255 on three base namespaces, every single-byte corruption "
                "(5 values) at each of the 28 id positions of 17 legal namespaces, lengths 0..40 (truncated / padded), "
                "Namespace::new for 4 versions x id lengths 0..40 x 5 fill patterns, and all 17 x 17 ordered pairs, and "
                "emits accept/reject, the value, the comparison and the reserved flag. The harness compares "
                "from_raw / serde deserialization / new / new_v0 / new_v255 / Ord / is_reserved exactly and runs the "
                "byte, serde, (version,id) and version-0 shorthand round trips on every accepted case.",
        "design_ref": "7 C14",
        "note": "The model contributes the case space and the accept/reject/order/reserved table; the round-trip "
                "halves are executed on real values only. Answers of new() for id lengths other than 28 and 10 are "
                "not pinned by the statement and compared as drift (anything constructed must still be a legal "
                "namespace). The reserved thresholds are taken from the statement's constants as documented "
                "(MAX_PRIMARY_RESERVED = v0 ...00ff, MIN_SECONDARY_RESERVED = v255 ...00); if the code's constants "
                "differ, the reserved comparison is skipped and reported as drift. Corruption values are 0,1,128,254,255, "
                "not all 256.",
        "technique": "TLA+ executable format reference enumerated by TLC, table replayed into Rust",
    },
    "C15": {
        "text": "spec/Formats.tla defines the five Shwap identifiers as big-endian height|row|column|namespace "
                "slices with their sizes, codecs and multihash codes, decoding (exact length, height >= 1 as 'not all "
                "height bytes zero', legal namespace) and CID acceptance. TLC enumerates 8 boundary heights (0, 1, 256, "
                "2^32-1, 2^32, 2^63, u64::MAX-1, u64::MAX as byte strings) x 6 row/column values x 13 namespaces "
                "(9 legal incl. the least, both reserved thresholds and neighbours, greatest version 0, TAIL_PADDING and "
                "PARITY_SHARE; 4 illegal) per kind, wrong lengths (each kind's bytes offered to every kind, +-1 byte, "
                "empty), and for the three kinds with CIDs every combination of 5 codecs x 5 multihash codes x digests "
                "of all five kinds; it checks encode/decode are inverse and that a CID is accepted as at most one kind, "
                "and emits accept/reject with the decoded fields. The harness compares decode / TryFrom<Cid> exactly and "
                "runs encode, constructor and id->CID->bytes->CID->id round trips on every accepted case; "
                "constructors must refuse height 0.",
        "design_ref": "7 C15",
        "note": "NamespaceDataId and EdsId have no CID conversion in celestia-types, only encode/decode are checked "
                "for them. The CID/multihasher code of lumina-node (node/src/p2p/shwap.rs) is not exercised. The "
                "model contributes the case space and accept/reject/decoded table; round trips are executed on real "
                "values. Heights are byte strings in the model (TLC integers are 32 bit).",
        "technique": "TLA+ executable format reference enumerated by TLC, table replayed into Rust",
    },
}


def classify(v):
    return v.get("class", {})


def run(ck):
    hb = ck.build("h-blob")
    ck.tlc_mc("MC_Formats", ck.cfg_with("MC_Formats.cfg"), workers=1)
    cases, _ = ck.tlc_gen("Gen_Formats", ck.cfg_with("Gen_Formats.cfg"), "formats.ndjson", count_stats=False)
    s = ck.harness(hb, ["replay", "formats", cases, "--prop", ck.prop], "formats")
    ck.absorb(s, classify)
    ck.cov["exhaustive"] = True
    if ck.prop == "C14":
        ck.cov["rule"] = ("every namespace case TLC enumerates is executed; non-trivial = distinct input (raw bytes with a "
                          "supported version byte or a corruption/length change, (version, id) pair, ordered pair of "
                          "distinct namespaces)")
    else:
        ck.cov["rule"] = ("every identifier case TLC enumerates is executed; non-trivial = distinct (kind, bytes) decode "
                          "input and distinct (kind, codec, multihash code, digest) CID input")
    ck.assumptions += ["both tiers run the same exhaustive enumeration (the case space is small)"]


def replay(ck):
    hb = ck.build("h-blob")
    d = json.load(open(ck.replay))
    p = f"{ck.work}/replay_cases.ndjson"
    with open(p, "w") as f:
        for it in d["items"]:
            v = it["case"]
            f.write(json.dumps(v.get("case", v)) + "\n")
    s = ck.harness(hb, ["replay", "formats", p, "--prop", ck.prop], "replay")
    ck.absorb(s, classify)
