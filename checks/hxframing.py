"""C30 (header-ex wire framing round-trips under any chunking).

spec/HxFraming.tla: a stream = frames (classes: empty body, 1-byte varint, 2-byte varint, frame that
fills the size limit) + optional garbage, as tokens at whose boundaries a reader can go wrong
(inside the varint, between prefix and body, mid-body, frame end); schedule = any <= MaxCuts chunk
boundaries, truncation after any token, end by EOF or by a silent peer (time limit).
  MC:  reader model (append chunks, parse at end of stream); invariants DesignAllowed (property
       layer) and ChunkIndependent (result depends only on the concatenation).
  ->B: Gen_HxFraming prints every behaviour with must = exact | err | prefix(k); h-hx writes real
       protobuf messages with the real HeaderCodec, cuts the bytes at the chosen boundaries
       (mid-body split points seeded-random), reads them back with the real HeaderCodec through an
       AsyncRead delivering exactly those chunks (with and without spurious Pending).
"""
import json
import vf

PROPS = ["C30"]

ENTRIES = {
    "C30": {
        "text": "spec/HxFraming.tla models a written stream (requests; response lists of 1..3 frames with 0-, 1- and "
                "2-byte-varint bodies; and streams padded to total sizes 2^N-1, 2^N, 2^N+1 for N = 16, 20, 23 (thorough "
                "16..23) and limit-1, limit, limit+1 of the request and response size limits) optionally followed by "
                "garbage (oversized length, non-protobuf body, non-varint), every choice of <= 2 (thorough 4) chunk "
                "boundaries among the interesting offsets, truncation after every token, EOF or silent peer; TLC "
                "checks that the reader design's result depends only on the concatenation and satisfies the "
                "statement; every behaviour is replayed: real messages written by the real HeaderCodec, read back by "
                "the real HeaderCodec through an AsyncRead yielding exactly the chosen chunks. Clean streams must "
                "decode to the written value; truncated/garbage streams must give an error or (responses) a prefix "
                "of completely delivered frames; a decoded value that was never written, or a panic, is a violation.",
        "design_ref": "7 C30",
        "note": "Interpretation (DESIGN 7 C30): a response stream cut after a complete frame may legitimately yield "
                "the frames read so far; a complete request followed by garbage may be accepted. The empty response "
                "list has no encoding and is outside the domain. Truncation is enumerated at token boundaries with "
                "seeded-random byte positions inside bodies/varints, not at every byte of every message.",
        "technique": "TLA+ reader model checked by TLC; TLC-generated chunking/truncation schedules replayed on the real codec",
    },
}


def classify(v):
    c = v.get("case", {})
    return {"mode": c.get("mode"), "must": c.get("must"), "garbage": c.get("garbage") != "none",
            "obs": v.get("obs")}


def _round(ck, hb, over, tag):
    mc_cfg = ck.cfg_with("MC_HxFraming.cfg", over, name=f"MC_HxFraming_{tag}.cfg")
    ck.tlc_mc("MC_HxFraming", mc_cfg, tag=f"mc_{tag}", required_actions=["ReadChunk", "EndOfStream"])
    gen_cfg = ck.cfg_with("Gen_HxFraming.cfg", over, name=f"Gen_HxFraming_{tag}.cfg")
    cases, _ = ck.tlc_gen("Gen_HxFraming", gen_cfg, f"cases_{tag}.ndjson", tag=f"gen_{tag}", count_stats=False)
    s = ck.harness(hb, ["replay", "hxframing", cases, "--seed", ck.seed], f"replay_{tag}")
    ck.absorb(s, classify)


QUICK_SIZES = '{"p16-1", "p16", "p16+1", "p20-1", "p20", "p20+1", "p23-1", "p23", "p23+1", "lim-1", "lim", "lim+1"}'
ALL_SIZES = "{" + ", ".join(f'"p{n}{d}"' for n in range(16, 24) for d in ("-1", "", "+1")) + ', "lim-1", "lim", "lim+1"}'


def run(ck):
    hb = ck.build("h-hx")
    # streams padded to sizes around the powers of two 64 KiB .. 8 MiB and around the size limits,
    # complete, every <= 1 (thorough 2) chunk boundary, with and without a small frame in front
    big = {"Classes": '{"s", "x"}', "MaxFrames": 2, "Garbage": '{"none"}', "FullOnly": "TRUE"}
    if ck.quick:
        _round(ck, hb, {"MaxFrames": 3, "MaxCuts": 2}, "main")
        _round(ck, hb, dict(big, MaxCuts=1, Sizes=QUICK_SIZES), "sizes")
    else:
        _round(ck, hb, {"MaxFrames": 3, "MaxCuts": 4}, "main")
        _round(ck, hb, {"MaxFrames": 1, "MaxCuts": 1, "Classes": '{"x"}', "Sizes": '{"lim-1", "lim", "lim+1"}'}, "limit")
        _round(ck, hb, dict(big, MaxCuts=2, Sizes=ALL_SIZES), "sizes")
    ck.cov["exhaustive"] = True
    ck.cov["rule"] = ("every behaviour (frames, garbage, chunk boundaries, truncation, end mode, size target) generated "
                      "by TLC is replayed once; non-trivial = distinct behaviour with >= 1 chunk boundary or a non-clean "
                      "stream")
    ck.assumptions += ["response lists are non-empty", "a request / response list 'fits' iff its encoding is at most "
                       "REQUEST_SIZE_LIMIT / RESPONSE_SIZE_LIMIT bytes; streams one byte above are cut by the reader "
                       "(error or a prefix)", "time limits are exercised under a paused tokio clock"]


def replay(ck):
    hb = ck.build("h-hx")
    d = json.load(open(ck.replay))
    cases = f"{ck.work}/replay_cases.ndjson"
    with open(cases, "w") as f:
        for it in d["items"]:
            f.write(json.dumps(it["case"]["case"]) + "\n")
    # message contents are seeded-random: try a few seeds so that the failing split points are hit again
    for sd in [d.get("seed", ck.seed), 1, 2, 3]:
        s = ck.harness(hb, ["replay", "hxframing", cases, "--seed", sd], f"replay_{sd}")
        ck.absorb(s, classify)
        if ck.violations:
            break
