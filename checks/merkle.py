"""C13: merkle, row and share proofs are position-binding and sound.

spec/Merkle.tla   symbolic RFC-6962 trees (hash = injective term constructor): the verification
                  algorithm transcribed on terms (ModelAccepts) and the statement (PropAllows: index <
                  total and the root decomposes along the shape of a `total`-leaf tree with the leaf at
                  the index).  One case = honest proof (n, i) + one mutation of index / total / leaf /
                  aunts / root.  TLC checks Complete, Sound (with the leaf count bound to the root),
                  AlteredRejected; a second run with BindTotal = FALSE reproduces the inherent
                  "other total, same path shape" counterexample (expected).
spec/RowProof.tla row-span arithmetic over u16 edge values x list lengths, and share proofs for every
                  namespace placement (r0,c0)..(r1,c1) in a 4x4 ODS x alteration.
->B               every case is concretised with real SHA-256 digests / real EDS + DAH and executed on
                  MerkleProof::verify, RowProof::verify, ShareProof::verify; the verdict (A/R/E) comes
                  from the spec.
"""
import json
import vf

PROPS = ["C13"]

ENTRIES = {
    "C13": {
        "text": "spec/Merkle.tla models RFC-6962 inclusion proofs with symbolic hashing (digests are terms, equality "
                "of terms is equality of digests) and decides for every case whether the statement allows acceptance "
                "(index < total and the root is the root of a tree with `total` leaves having the leaf at `index`). "
                "TLC enumerates every honest proof for 1..9 leaves (thorough 1..17) with every claimed (index,total) in "
                "0..n+10 x 0..n+3 and drop/duplicate/swap/replace/append mutations of aunts, replaced leaf (argument, "
                "proof copy, both) and replaced root (thorough: aunt mutations x index/total too), checks that the "
                "design is complete and sound, and emits the cases with verdicts. Each case is executed on the real "
                "MerkleProof::verify with real SHA-256; cases whose leaf count is a DAH size (8 roots, thorough also 16; a 2x2 EDS has equal row and column roots and is left out) are also "
                "executed as RowProof and ShareProof over a real EDS/DAH (leaf = row root, aunts = DAH tree nodes). "
                "spec/RowProof.tla enumerates claimed spans over u16 edge values x numbers of roots/proofs and all "
                "namespace placements in a 4x4 ODS x 19 alterations (shares, NMT nodes, row roots, DAH aunts, span, "
                "counts); honest ones must verify, listed alterations must fail, nothing may panic.",
        "design_ref": "7 C13, 4 symbolic cryptography, A.6",
        "note": "Collision-freeness and leaf/inner domain separation of SHA-256 are the trusted base (that is what "
                "makes term equality = digest equality). Exhaustive for the listed mutation families in trees up to "
                "9 (17) leaves; the quantifier's 1..300 leaf lists are not reached exhaustively (tree shape recursion is "
                "covered by all sizes up to 17, i.e. every split pattern of depth <= 5). The unmutated honest proof of every (total, index), powers of two or not, must verify. For share proofs the model contributes the case space, the counting checks and the verdict "
                "table; NMT hashing itself is treated as injective. TLC also checks that with unchanged aunts the algorithm accepts a claimed (index,total) iff it walks "
                "the same left/right turns as the honest pair (AcceptIffSamePath) and that the statement allows none of "
                "them. Known finding: a proof verified with another "
                "`total` of the same path shape (same turns, same number of aunts) is accepted (inherent to opaque-sibling RFC-6962 proofs whose root "
                "is not bound to the leaf count).",
        "technique": "TLA+ symbolic-crypto model + TLC exhaustive case/verdict generation replayed into Rust",
    },
}


def classify(v):
    return v.get("class", {})


def run(ck):
    hb = ck.build("h-blob")
    nmax = 9 if ck.quick else 17
    consts = {"NMax": nmax, "IExtra": 10, "TExtra": 3, "Pairs": "FALSE", "CheckIndex": "TRUE", "BindTotal": "TRUE"}
    # 1. the design satisfies the property
    ck.tlc_mc("MC_Merkle", ck.cfg_with("MC_Merkle.cfg", consts), workers=1)  # one initial-state sweep: a single worker is fastest
    # 1b. named deviation: leaf count not bound to the root (as the code is) -> expected counterexample
    dev = dict(consts, BindTotal="FALSE", NMax=5)
    ck.tlc_mc("MC_Merkle", ck.cfg_with("MC_Merkle.cfg", dev, name="MC_Merkle_asis.cfg"), tag="mc_asis", workers=1,
              expect_violation="Sound")
    ck.tlc_mc("MC_RowProof", ck.cfg_with("MC_RowProof.cfg", {"W": 4, "MaxLists": 4}), workers=1)
    # 2. spec -> impl
    cases, n1 = ck.tlc_gen("Gen_Merkle", ck.cfg_with("Gen_Merkle.cfg", consts), "merkle.ndjson", count_stats=False)
    s = ck.harness(hb, ["replay", "merkle", cases, "--seed", ck.seed], "merkle")
    ck.absorb(s, classify)
    if not ck.quick:
        pc = dict(consts, NMax=8, Pairs="TRUE", IExtra=4, TExtra=2)
        cases2, _ = ck.tlc_gen("Gen_Merkle", ck.cfg_with("Gen_Merkle.cfg", pc, name="Gen_Merkle_pairs.cfg"),
                               "merkle_pairs.ndjson", tag="gen_pairs")
        s2 = ck.harness(hb, ["replay", "merkle", cases2, "--seed", ck.seed + 1], "merkle_pairs")
        ck.absorb(s2, classify)
    rcases, n2 = ck.tlc_gen("Gen_RowProof", ck.cfg_with("Gen_RowProof.cfg", {"W": 4, "MaxLists": 4}),
                            "rowproof.ndjson", count_stats=False)
    s3 = ck.harness(hb, ["replay", "rowproof", rcases, "--seed", ck.seed, "--w", 4], "rowproof")
    ck.absorb(s3, classify)
    ck.cov["exhaustive"] = True
    ck.cov["rule"] = ("every case TLC enumerates (honest proof x one mutation; row span x list lengths; namespace "
                      "placement x alteration) is executed; non-trivial = distinct mutated case (family, position, "
                      "claimed index/total) at merkle and row level, distinct (placement, alteration) at share level; "
                      "unmutated honest proofs and empty row proofs are counted as trivial")
    ck.assumptions += ["SHA-256 is collision free and leaf/inner hashes are domain separated (symbolic hashing)",
                       "a panic of MerkleProof::verify on total = 0 (debug_assert, unreachable from the wire format) "
                       "is recorded as drift, not as acceptance",
                       "harness crates build celestia-types with overflow checks and debug assertions on"]
    ck.cov["coverage_gaps"] += ["leaf lists of 18..300 items are not enumerated",
                                "absence proofs inside ShareProof are only reached through the 'only presence "
                                "proofs allowed' branch implicitly (not generated)"]


def replay(ck):
    hb = ck.build("h-blob")
    d = json.load(open(ck.replay))
    by = {"merkle": [], "rowproof": []}
    for it in d["items"]:
        v = it["case"]
        c = v.get("case", v)
        by["rowproof" if "kind" in c else "merkle"].append(c)
    for model, cs in by.items():
        if not cs:
            continue
        p = f"{ck.work}/replay_{model}.ndjson"
        with open(p, "w") as f:
            for c in cs:
                f.write(json.dumps(c) + "\n")
        s = ck.harness(hb, ["replay", model, p, "--seed", d.get("seed", ck.seed)] + (["--w", 4] if model == "rowproof" else []),
                       "replay_" + model)
        ck.absorb(s, classify)
