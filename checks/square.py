"""C04 (verified sample = share at the requested coordinates) and C07 (bad-encoding fraud proofs
sound and complete) over the symbolic extended data square of spec/Square.tla.

spec/Square.tla: shares are identified by the coordinates they were committed at, hashes are injective
constructors, the single-leaf NMT verifier is a transcription of nmt-rs' check_range_proof evaluated
on terms.  SqSample / SqBefp enumerate *constructions* (honest parts recombined, plus alterations);
the property layer (SampleDemand / BefpDemand) fixes the verdict each construction must get, the
algorithmic layer (SampleCode / BefpCode) is the design of the verifier.
  MC:   TLC exhaustive: the design gives the demanded verdict on every construction; the two
        deviations of the pinned tree (no leaf-position check, leaf namespaces by slot only) are run
        as well and must produce a counterexample (sensitivity of the model).
  ->B:  Gen_* prints every construction with demand + prediction; h-square builds it from real shares,
        real Reed-Solomon parity and real NMT proofs at several widths (block scaling of the abstract
        coordinates), pushes it through the wire encoding and the real verify/validate, and compares
        with the demanded verdict.  A panic is a violation.  Prediction mismatches are drift.
"""
import json
import os
import vf

PROPS = ["C04", "C07"]

ENTRIES = {
    "C04": {
        "text": "TLC enumerates, over a symbolic 2x2 and 4x4 extended square (spec/Square.tla, SqSample.tla), every "
                "recombination of any committed or altered share with any honest single-leaf NMT proof, any requested "
                "id and either claimed proof axis, plus altered proof ranges (start, length) and sibling lists; the "
                "spec decides the verdict the property demands (accept for the honest sample, reject whenever the share "
                "is not the one at the requested coordinates) and TLC checks that the verifier design (NMT verification "
                "transcribed from nmt-rs, evaluated on injective hash terms) meets it. Every case is concretised on real "
                "ExtendedDataSquares (widths 2..16 quick, ..64 thorough; three coordinate scalings) with pairwise "
                "distinct shares and real proofs, observed at two points -- Sample encode/decode(id) + verify(id), and Sample::verify(id) called directly on an in-memory Sample assembled from the parts (not decoded under the target id) -- and compared "
                "with the demanded verdict; panics are violations.",
        "design_ref": "7 C04, A.7",
        "note": "Collision-freeness of SHA-256/NMT is assumed (hashes are constructors). The shrex ResponseCodec and "
                "the Shwap multihasher wrappers around Sample::decode/verify are not exercised. Alterations of proofs "
                "are a finite family (start, length, drop/swap/duplicate a sibling), not arbitrary bytes.",
        "technique": "TLA+ symbolic-cryptography spec; TLC exhaustive case enumeration with verdicts replayed into Rust",
    },
    "C07": {
        "text": "TLC enumerates fraud-proof constructions over the symbolic square (spec/SqBefp.tla): the honest "
                "prover's proof for every axis, every index of both halves, every subset of at least K-1 slots and "
                "proof-axis mixes, on the honestly encoded square, on squares with one overwritten cell per quadrant and on squares whose producer computed a first-quadrant row's / column's parity from a permutation of its data shares (reconstruction gives valid but unsorted namespaces), "
                "with one adversarial edit (swap / duplicate / substitute proven shares with valid proofs, altered "
                "share, namespace or proof position, relabelled index/axis, wrong length). The spec demands reject "
                "whenever the indicated committed line is a codeword and accept for the honest prover on a corrupted "
                "line; TLC checks the validator design against it (incl. the binding lemma: a slot that verifies holds "
                "the committed share of that slot). Each construction is built from real shares/proofs of real squares "
                "whose corrupted variants get their DAH from the corrupted data, goes through the protobuf encoding and "
                "BadEncodingFraudProof::validate; codeword-ness of every line is confirmed with leopard.",
        "design_ref": "7 C07, A.7",
        "note": "Reed-Solomon is an axiom in the model (a line is a codeword iff it holds no overwritten cell; any K "
                "shares determine it), confirmed concretely per square. One edit per construction. The node-side "
                "handling (network_compromised_token) is not exercised.",
        "technique": "TLA+ symbolic-cryptography spec; TLC exhaustive case enumeration with verdicts replayed into Rust",
    },
}

WIDTHS = {"quick": "2,4,8,16", "thorough": "2,4,8,16,32,64"}


def classify(v):
    return v.get("class", {})


def _dedupe(path):
    seen, out = set(), []
    for ln in open(path):
        if ln not in seen:
            seen.add(ln)
            out.append(ln)
    open(path, "w").writelines(out)
    return len(out)


def run_c04(ck):
    hb = ck.build("h-square")
    cases = []
    for k in (1, 2):
        mc = ck.cfg_with("MC_SqSample.cfg", {"K": k}, name=f"MC_SqSample_k{k}.cfg")
        ck.tlc_mc("MC_SqSample", mc, tag=f"mc_k{k}", required_actions=["Honest", "Recombine", "Alter"])
        gen = ck.cfg_with("Gen_SqSample.cfg", {"K": k}, name=f"Gen_SqSample_k{k}.cfg")
        p, _ = ck.tlc_gen("Gen_SqSample", gen, f"cases_k{k}.ndjson", tag=f"gen_k{k}", count_stats=False)
        _dedupe(p)
        cases.append(p)
    # sensitivity: the pinned tree's design (no leaf-position check) must fail in the model
    dev = ck.cfg_with("MC_SqSample.cfg", {"K": 2, "PosCheck": "FALSE"}, name="MC_SqSample_nopos.cfg")
    r = ck.tlc_mc("MC_SqSample", dev, tag="mc_nopos", expect_violation="SampleSound")
    if not r.get("expected_violation_reproduced"):
        raise vf.ToolError("model insensitive: dropping the leaf-position check does not violate SampleSound")
    allc = f"{ck.work}/cases.ndjson"
    with open(allc, "w") as f:
        for p in cases:
            f.write(open(p).read())
    s = ck.harness(hb, ["replay", "sqsample", allc, "--seed", ck.seed, "--widths", WIDTHS[ck.tier]], "replay")
    ck.absorb(s, classify)
    ck.cov["exhaustive"] = True
    ck.cov["rule"] = ("every (id, share, proof source, claimed axis, range/sibling alteration) generated by TLC for K=1,2, "
                      "replayed at each width under up to 3 coordinate scalings; non-trivial = distinct (case, width, "
                      "scaling) whose demanded verdict is accept or reject (not 'either')")
    ck.assumptions += ["hash functions are collision-free (hash terms are injective constructors)",
                       "concrete shares of a square are pairwise distinct (checked when the square is built)"]


def run_c07(ck):
    hb = ck.build("h-square")
    cases = []
    pax = '"some"' if ck.quick else '"all"'
    for k in (1, 2):
        # quick: K=2 over the honest square and two corrupted ones (a data cell, a Q4 parity cell);
        # thorough: every single overwritten cell
        junk = ('"two"' if k == 2 else '"quadrants"') if ck.quick else '"all"'
        ov = {"K": k, "JunkMode": junk, "PaxMode": pax}
        mc = ck.cfg_with("MC_SqBefp.cfg", ov, name=f"MC_SqBefp_k{k}.cfg")
        ck.tlc_mc("MC_SqBefp", mc, tag=f"mc_k{k}",
                  required_actions=["Plain", "Permute", "Substitute", "AlterSlot", "Relabel"])
        gen = ck.cfg_with("Gen_SqBefp.cfg", ov, name=f"Gen_SqBefp_k{k}.cfg")
        p, _ = ck.tlc_gen("Gen_SqBefp", gen, f"cases_k{k}.ndjson", tag=f"gen_k{k}", count_stats=False)
        _dedupe(p)
        cases.append(p)
    for name, ov in (("nopos", {"PosCheck": "FALSE"}), ("nsbyslot", {"NsByIndex": "FALSE"})):
        dev = ck.cfg_with("MC_SqBefp.cfg", dict({"K": 2, "JunkMode": '"none"', "PaxMode": '"some"'}, **ov),
                          name=f"MC_SqBefp_{name}.cfg")
        r = ck.tlc_mc("MC_SqBefp", dev, tag=f"mc_{name}", expect_violation="BefpSound")
        if not r.get("expected_violation_reproduced"):
            raise vf.ToolError(f"model insensitive: deviation {name} does not violate BefpSound")
    allc = f"{ck.work}/cases.ndjson"
    with open(allc, "w") as f:
        for p in cases:
            f.write(open(p).read())
    widths = "2,4,8,16" if ck.quick else "2,4,8,16,32"
    s = ck.harness(hb, ["replay", "sqbefp", allc, "--seed", ck.seed, "--widths", widths,
                        "--tier", ck.tier], "replay", timeout=3000)
    ck.absorb(s, classify)
    ck.cov["exhaustive"] = True
    ck.cov["rule"] = ("every construction generated by TLC for K=1,2 (square variant x axis x index x present slots x "
                      "proof-axis assignment x one edit), replayed at each width; non-trivial = distinct (case, width, "
                      "scaling) whose demanded verdict is accept or reject")
    ck.assumptions += ["hash functions are collision-free (hash terms are injective constructors)",
                       "Reed-Solomon/MDS: a committed line is a codeword iff it holds no overwritten cell "
                       "(confirmed with leopard for every square and line used)"]


def run(ck):
    if ck.prop == "C04":
        run_c04(ck)
    else:
        run_c07(ck)


def replay(ck):
    hb = ck.build("h-square")
    d = json.load(open(ck.replay))
    cases = f"{ck.work}/replay_cases.ndjson"
    widths = set()
    with open(cases, "w") as f:
        for it in d["items"]:
            c = it["case"]
            f.write(json.dumps(c["case"]) + "\n")
            widths.add(str(c.get("width", 4)))
    model = "sqsample" if ck.prop == "C04" else "sqbefp"
    s = ck.harness(hb, ["replay", model, cases, "--seed", d.get("seed", ck.seed), "--widths", ",".join(sorted(widths)),
                        "--tier", "thorough"], "replay")
    ck.absorb(s, classify)
