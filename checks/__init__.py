# property id -> check module
REGISTRY = {
    "C17": "ranges",
    "C18": "ranges",
}
