"""Check modules are discovered: every checks/<x>.py defines
PROPS = [...property ids...] and ENTRIES = {id: manifest text}."""
import glob
import os
import re

REGISTRY = {}
for _f in sorted(glob.glob(os.path.join(os.path.dirname(__file__), "*.py"))):
    _name = os.path.basename(_f)[:-3]
    if _name.startswith("_") or _name == "manifest_entries":
        continue
    _m = re.search(r"(?m)^PROPS\s*=\s*\[([^\]]*)\]", open(_f).read())
    if _m:
        for _p in re.findall(r"\"(C\d+)\"", _m.group(1)):
            REGISTRY[_p] = _name
