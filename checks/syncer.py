"""C25 (never re-request behind a pruned/old window edge) and C38 (store stays on the honest
chain and converges); C24 is re-checked end to end on the real worker's requests.

spec/Syncer.tla: the syncer worker (connecting / connected loops, try_init, header-sub,
fetch_next_batch with the sampling-window guard, batch results) composed with its environment
(store admission + neighbour verification, honest/foreign/failing answers, pruner obeying C35,
disconnects, new blocks).  MC_Syncer: TLC exhaustive with invariants NoRequestBelowOldHeader (C25),
FetchAllowed (C24), StoreOnHonestChain (C38 safety), and EventuallySynced (C38 liveness, fair,
honest environment).  The pinned code's behaviour for a pruned header above the batch is the
named deviation AsIsDeviation: the model is checked with it off (must pass) and on (the
counterexample is the C25 finding).
<-B: the real Syncer over mocked P2p + InMemoryStore under a seeded scripted environment; every
node event, environment action and store snapshot is logged; Trace_Syncer validates strictly
(algorithmic layer) and, where that rejects, loosely (properties only): loose rejection =
VIOLATION, strict-only rejection = DRIFT.
"""
import json
import os
import vf

PROPS = ["C25", "C38"]
ENTRIES = {
    "C25": {
        "text": "TLC checks NoRequestBelowOldHeader on Syncer.tla composed with a pruner that may remove any header "
                "C35 allows (exhaustive, N=6); runs of the real Syncer with prefilled stores, pruning of window-edge "
                "headers, header-sub heads and disconnects are recorded and validated by Trace_Syncer: at every "
                "FetchingHeadersStarted no synced (stored or pruned) header above the batch may be older than the "
                "sampling window. SyncerFetch.tla refines fetch_next_batch into its three store calls with the pruner "
                "interleaved (TLC: holds with the repaired re-read, fails with the stale snapshot); in the recorded runs a "
                "store wrapper performs pruner removals between those calls of the real worker.",
        "design_ref": "7 C25, A.3",
        "note": "Real-clock window checks are kept >= 50 s away from any boundary (headers 100 s apart); the "
                "pruner is played by the harness and obeys C35. Slow sync is part of the model (slowH, SlowThr); it is "
                "inactive in these runs (huge pruning window) and exercised in C38's slow-sync runs.",
        "technique": "TLA+ composition model + TLC; TLC trace validation (strict, then property-only) of the real worker",
    },
    "C38": {
        "text": "TLC checks StoreOnHonestChain with peers serving a foreign chain / failures and EventuallySynced under "
                "fairness with honest answers; recorded runs of the real Syncer + real HeaderSession against honest, "
                "foreign-chain (other validator key, and forks signed by the same validator), truncated, erroring and failing answers with disconnects are "
                "validated by Trace_Syncer: the store is read back after every event and must only hold honest "
                "headers; after an honest tail phase the whole sampling window up to the head must be stored. Slow sync "
                "(the syncer waiting for the sampler below the pruning window) is modelled (slowH / SlowThr in Syncer.tla and "
                "Node.tla, liveness under fairness of the sampler, non-vacuity shown by a refuted invariant) and driven on "
                "the real worker in dedicated runs in which the harness plays the sampler.",
        "design_ref": "7 C38",
        "note": "Foreign chains are signed by another validator in half of the runs and are same-validator forks in "
                "the other half (only the hash links tell those apart). Head answers come from trusted peers and are honest. Individually "
                "invalid headers are rejected one layer below (C28) and are not injected here. The pruner is not "
                "part of C38's environment (see DESIGN: with the bounding header pruned a foreign batch has no "
                "stored neighbour to contradict it).",
        "technique": "TLA+ composition model + TLC (safety + liveness); TLC trace validation of the real worker",
    },
}

COMBOS_QUICK = [(40, 4, 10), (30, 8, 30)]
COMBOS_THOROUGH = [(40, 4, 10), (30, 8, 30), (120, 16, 40), (60, 2, 5), (100, 64, 90)]


def mc(ck):
    n = 6 if ck.quick else 7
    if ck.prop == "C25":
        ck.tlc_mc("MC_Syncer", ck.cfg_with("MC_Syncer.cfg", {"N": n, "EnablePrune": "TRUE", "EnableForeign": "FALSE"}),
                  required_actions=["TryInit", "HeaderSub", "FetchNext", "BatchOk", "Prune", "Disconnect"], timeout=3000)
        ck.tlc_mc("MC_Syncer", ck.cfg_with("MC_Syncer.cfg", {"N": 6, "AsIsDeviation": "TRUE"}, name="MC_Syncer_asis.cfg"),
                  tag="mc_asis", expect_violation="NoRequestBelowOldHeader")
        # the composition with the real pruner and daser designs (Node.tla): the repaired guard is sound
        # because PrunedEdgesAreOld is an invariant of the system
        ck.tlc_mc("MC_Node", ck.cfg_with("MC_Node.cfg", {"N": 4}), tag="mc_node", timeout=3000,
                  required_actions=["FetchNext", "ComputeBatch", "RemoveNext"])
    else:
        ck.tlc_mc("MC_Syncer", ck.cfg_with("MC_Syncer.cfg", {"N": n, "EnablePrune": "FALSE", "EnableForeign": "TRUE"}),
                  required_actions=["TryInit", "HeaderSub", "FetchNext", "BatchOk", "BatchForeign", "BatchFail"],
                  timeout=3000)
        ck.tlc_mc("MC_Syncer", ck.cfg_with("MC_Syncer_live.cfg"), tag="mc_live", timeout=3000)
        # slow sync in force (the syncer waits for the sampler): still converges; and the configuration is not
        # vacuous (slow sync does hold the syncer back in some state)
        ck.tlc_mc("MC_Syncer", ck.cfg_with("MC_Syncer_slow.cfg"), tag="mc_slow", timeout=3000)
        ck.tlc_mc("MC_Syncer", ck.cfg_with("MC_Syncer_slow_vac.cfg"), tag="mc_slow_vac", expect_violation="SlowSyncNeverHolds")
        # liveness of the whole composition (syncer + daser + pruner): window synced and sampled, old blocks pruned
        ck.tlc_mc("MC_Node", ck.cfg_with("MC_Node_live.cfg"), tag="mc_node_live", timeout=3000, workers=4)
        ck.tlc_mc("MC_Node", ck.cfg_with("MC_Node_live_vac.cfg"), tag="mc_node_live_vac", expect_violation="SlowSyncNeverHolds")


def mc_fetch_section(ck):
    """SyncerFetch.tla: fetch_next_batch as three store calls with the pruner in between."""
    n = 5 if ck.quick else 6
    ck.tlc_mc("SyncerFetch", ck.cfg_with("SyncerFetch.cfg", {"N": n, "Recheck": "TRUE", "MaxNow": n + 2}, name="SyncerFetch_fixed.cfg"),
              tag="mc_fetch_fixed", timeout=2400, required_actions=["Read1", "Read2", "Decide", "Prune", "MarkSampled", "Tick"])
    if ck.prop == "C25":
        # the section as it was before the repair: a stale snapshot of the pruned ranges
        ck.tlc_mc("SyncerFetch", ck.cfg_with("SyncerFetch.cfg", {"N": 5, "Recheck": "FALSE"}, name="SyncerFetch_stale.cfg"),
                  tag="mc_fetch_stale", expect_violation="NoRequestBelowOldHeader")
    if ck.prop == "C24":
        # a design reading the pruned ranges before the stored ranges must be refuted
        ck.tlc_mc("SyncerFetch", ck.cfg_with("SyncerFetch.cfg", {"N": 5, "Recheck": "TRUE", "ReadOrder": '"PS"'}, name="SyncerFetch_ps.cfg"),
                  tag="mc_fetch_ps", expect_violation="FetchAllowed")


def run(ck):
    hb = ck.build("h-node")
    mc(ck)
    if ck.prop == "C25":
        mc_fetch_section(ck)
    guided_validate(ck, hb)
    record_validate(ck, hb)


def guided_validate(ck, hb):
    """spec -> impl: environment schedules generated by TLC from Syncer.tla (simulation) are performed on the
    real Syncer; the recorded run is judged like the random ones."""
    prune, foreign = ("FALSE", "TRUE") if ck.prop == "C38" else ("TRUE", "FALSE")
    consts = {"N": 10, "Batch": 2, "WSamp": 5}
    gcfg = ck.cfg_with("Gen_Syncer.cfg", {"EnablePrune": prune, "EnableForeign": foreign})
    walks = 60 if ck.quick else 600
    beh, _ = ck.tlc_gen("Gen_Syncer", gcfg, "behaviours.ndjson", simulate=(walks, 40), dedupe=True,
                        count_stats=False, timeout=1500)
    trace = f"{ck.work}/trace_guided.ndjson"
    s = ck.harness(hb, ["replay", "syncer", beh, "--out", trace, "--n", 10, "--batch", 2, "--wsamp", 5], "replay_guided",
                   timeout=3000)
    p = s["props"][ck.prop]
    ck.cov["evaluations"] += p["evaluations"]
    ck.cov["distinct_nontrivial"] += p["distinct_nontrivial"]
    ck.cov["samples"] += p["samples"][:1]
    for line in open(trace):
        if '"name":"fatal"' in line:
            ck.violation({"kind": "fatal-syncer-error", "dir": "spec->impl"}, line[:300], json.loads(line))
    strict_cfg = ck.cfg_with("Trace_Syncer.cfg", dict(consts, Strict="TRUE"), name="Trace_Syncer_sg.cfg")
    loose_cfg = ck.cfg_with("Trace_Syncer.cfg", dict(consts, Strict="FALSE"), name="Trace_Syncer_lg.cfg")

    def on_reject(rej, run_lines, idx):
        p2 = f"{ck.work}/loose_g_{abs(hash(run_lines[0] + run_lines[-1])) % 10**8}.ndjson"
        open(p2, "w").write("\n".join(run_lines) + "\n")
        ok, rej2 = ck.tlc_trace("Trace_Syncer", loose_cfg, p2, tag="loose_guided")
        ev = rej["event"] if isinstance(rej["event"], dict) else {}
        if ok:
            ck.cov["drift"] += 1
            vf.log(f"DRIFT property={ck.prop} (guided) event {idx} ({ev.get('name')}): {json.dumps(ev)[:200]}")
            return
        inv = rej2.get("invariant")
        owner = {"NoRequestBelowOldHeader": "C25", "StoreOnHonestChain": "C38", "FetchAllowed": "C24"}.get(inv, ck.prop)
        if owner == ck.prop or (owner == "C24" and ck.prop == "C25"):
            ck.violation({"kind": "property", "invariant": inv, "event": "fetch", "dir": "spec->impl"},
                         f"TLC-generated schedule: property {inv} fails at event {rej2['at']}: "
                         f"{json.dumps(rej2.get('event') or ev)[:300]}",
                         {"trace": run_lines[:max(rej2['at'], idx)], "reject": rej2, "consts": consts})

    ck.validate_trace_runs("Trace_Syncer", strict_cfg, trace, on_reject)


def record_validate(ck, hb, combos=None):
    """Recorded runs of the real Syncer validated by Trace_Syncer (also used by the C24 check for the
    end-to-end FetchAllowed clause)."""
    mode = "c38" if ck.prop == "C38" else "c25"
    combos = combos or (COMBOS_QUICK if ck.quick else COMBOS_THOROUGH)
    runs = 12 if ck.quick else 60
    for i, (n, batch, k) in enumerate(combos):
        trace = f"{ck.work}/trace{i}.ndjson"
        s = ck.harness(hb, ["record", "syncer", "--seed", ck.seed + i, "--out", trace, "--runs", runs, "--mode", mode,
                            "--n", n, "--batch", batch, "--wsamp", k, "--steps", 80], f"record{i}", timeout=3000)
        p = s["props"][ck.prop]
        ck.cov["evaluations"] += p["evaluations"]
        ck.cov["distinct_nontrivial"] += p["distinct_nontrivial"]
        ck.cov["samples"] += p["samples"][:2]
        for line in open(trace):
            if '"name":"fatal"' in line:
                ck.violation({"kind": "fatal-syncer-error"}, line[:300], json.loads(line))
        consts = {"N": n, "Batch": batch, "WSamp": k}
        strict_cfg = ck.cfg_with("Trace_Syncer.cfg", dict(consts, Strict="TRUE"), name=f"Trace_Syncer_s{i}.cfg")
        loose_cfg = ck.cfg_with("Trace_Syncer.cfg", dict(consts, Strict="FALSE"), name=f"Trace_Syncer_l{i}.cfg")

        def on_reject(rej, run_lines, idx, loose_cfg=loose_cfg, i=i):
            # second opinion: properties only, on this run alone
            p2 = f"{ck.work}/loose_{i}_{abs(hash(run_lines[0])) % 10**8}.ndjson"
            open(p2, "w").write("\n".join(run_lines) + "\n")
            ok, rej2 = ck.tlc_trace("Trace_Syncer", loose_cfg, p2, tag=f"loose{i}")
            ev = rej["event"] if isinstance(rej["event"], dict) else {}
            if ok:
                ck.cov["drift"] += 1
                vf.log(f"DRIFT property={ck.prop} event {idx} ({ev.get('name')}) is not the algorithmic model's step "
                       f"but satisfies the properties: {json.dumps(ev)[:200]}")
                os.remove(p2)
                return
            inv = rej2.get("invariant")
            ev2 = rej2["event"] if isinstance(rej2.get("event"), dict) else {}
            owner = {"NoRequestBelowOldHeader": "C25", "StoreOnHonestChain": "C38", "FetchAllowed": "C24"}.get(inv)
            if owner is None:
                owner = "C38" if ev2.get("name") == "quiescent" else ck.prop
            if owner == ck.prop or (owner == "C24" and ck.prop == "C25"):
                at = rej2["at"]
                ck.violation({"kind": "property", "invariant": inv, "event": ev2.get("name") or "fetch"},
                             f"run {run_lines[0]}: property {inv or 'liveness-at-quiescence'} fails at event {at}: "
                             f"{json.dumps(ev2 or ev)[:300]}", {"trace": run_lines[:max(at, idx)], "reject": rej2})

        ck.validate_trace_runs("Trace_Syncer", strict_cfg, trace, on_reject)
    if ck.prop == "C38":
        # slow sync in force (pruning window shorter than the sampling window): the syncer waits for the sampler,
        # played by the harness; in the end the whole window must be stored
        trace = f"{ck.work}/trace_slow.ndjson"
        s = ck.harness(hb, ["record", "syncer-slow", "--seed", ck.seed, "--out", trace, "--runs", 3 if ck.quick else 12],
                       "record_slow", timeout=3000)
        p = s["props"]["C38"]
        ck.cov["evaluations"] += p["evaluations"]
        ck.cov["distinct_nontrivial"] += p["distinct_nontrivial"]
        ck.cov["samples"] += p["samples"][:1]
        consts = {"N": 170, "Batch": 16, "WSamp": 130, "WPrune": 40, "SlowThr": 50}
        strict_cfg = ck.cfg_with("Trace_Syncer.cfg", dict(consts, Strict="TRUE"), name="Trace_Syncer_ss.cfg")
        loose_cfg = ck.cfg_with("Trace_Syncer.cfg", dict(consts, Strict="FALSE"), name="Trace_Syncer_ls.cfg")

        def on_reject_slow(rej, run_lines, idx):
            p2 = f"{ck.work}/loose_slow_{abs(hash(run_lines[0])) % 10**8}.ndjson"
            open(p2, "w").write("\n".join(run_lines) + "\n")
            ok, rej2 = ck.tlc_trace("Trace_Syncer", loose_cfg, p2, tag="loose_slow")
            ev = rej["event"] if isinstance(rej["event"], dict) else {}
            if ok:
                ck.cov["drift"] += 1
                vf.log(f"DRIFT property=C38 (slow sync) event {idx} ({ev.get('name')}): {json.dumps(ev)[:200]}")
                return
            inv = rej2.get("invariant")
            ev2 = rej2["event"] if isinstance(rej2.get("event"), dict) else {}
            if inv in (None, "StoreOnHonestChain"):
                ck.violation({"kind": "property", "invariant": inv, "event": ev2.get("name") or "quiescent", "scenario": "slow-sync"},
                             f"slow-sync run: {inv or 'the sampling window is not stored although honest peers answered, every stored header was sampled and heads kept arriving'} "
                             f"(event {rej2['at']}): {json.dumps(ev2 or ev)[:300]}",
                             {"trace": run_lines[:max(rej2['at'], idx)], "reject": rej2, "consts": consts})

        ck.validate_trace_runs("Trace_Syncer", strict_cfg, trace, on_reject_slow)
        if p["distinct_nontrivial"] == 0 and not ck.violations:
            raise vf.ToolError("vacuity: the syncer was never idle with an incomplete window in the slow-sync runs")
    if ck.prop == "C25":
        # real clock moving: the stored tail leaves the sampling window while batches below it keep failing
        trace = f"{ck.work}/trace_aging.ndjson"
        s = ck.harness(hb, ["record", "syncer-aging", "--seed", ck.seed, "--out", trace, "--runs", 2 if ck.quick else 8],
                       "record_aging", timeout=3000)
        p = s["props"]["C25"]
        ck.cov["evaluations"] += p["evaluations"]
        ck.cov["distinct_nontrivial"] += p["distinct_nontrivial"]
        ck.cov["samples"] += p["samples"][:1]
        consts = {"N": 12, "Batch": 2, "WSamp": 4}
        strict_cfg = ck.cfg_with("Trace_Syncer.cfg", dict(consts, Strict="TRUE"), name="Trace_Syncer_sa.cfg")
        loose_cfg = ck.cfg_with("Trace_Syncer.cfg", dict(consts, Strict="FALSE"), name="Trace_Syncer_la.cfg")

        def on_reject_aging(rej, run_lines, idx):
            p2 = f"{ck.work}/loose_aging_{abs(hash(run_lines[0])) % 10**8}.ndjson"
            open(p2, "w").write("\n".join(run_lines) + "\n")
            ok, rej2 = ck.tlc_trace("Trace_Syncer", loose_cfg, p2, tag="loose_aging")
            ev = rej["event"] if isinstance(rej["event"], dict) else {}
            if ok:
                ck.cov["drift"] += 1
                vf.log(f"DRIFT property=C25 (aging) event {idx} ({ev.get('name')}): {json.dumps(ev)[:200]}")
                return
            ck.violation({"kind": "property", "invariant": rej2.get("invariant"), "event": "fetch", "scenario": "aging"},
                         f"aging run: property {rej2.get('invariant')} fails at event {rej2['at']}: "
                         f"{json.dumps(rej2.get('event') or ev)[:300]}", {"trace": run_lines[:max(rej2['at'], idx)], "reject": rej2,
                                                                          "consts": consts})

        ck.validate_trace_runs("Trace_Syncer", strict_cfg, trace, on_reject_aging)
    ck.cov["rule"] = ("one evaluation = one recorded run of the real Syncer; non-trivial = run with >= 3 fetches and at "
                      "least one prune / foreign answer / disconnect")
    ck.assumptions += ["real clock: header times are 100 s apart, window edges 50 s away from any header time",
                       "the pruner is played by the harness and only removes what C35 allows"]


def replay(ck):
    d = json.load(open(ck.replay))
    for i, it in enumerate(d["items"]):
        c = it["case"]
        if "trace" not in c:
            continue
        p = f"{ck.work}/replay_trace{i}.ndjson"
        open(p, "w").write("\n".join(c["trace"]) + "\n")
        # constants are in the reset/first events? use the widest combo: N from the reset event
        n = json.loads(c["trace"][0]).get("now", 40)
        combo = [x for x in COMBOS_THOROUGH if x[0] == n] or [COMBOS_THOROUGH[0]]
        nn, batch, k = combo[0]
        if "consts" in c:
            nn, batch, k = c["consts"]["N"], c["consts"]["Batch"], c["consts"]["WSamp"]
        over = {"N": nn, "Batch": batch, "WSamp": k, "Strict": "FALSE"}
        for extra in ("WPrune", "SlowThr"):
            if extra in c.get("consts", {}):
                over[extra] = c["consts"][extra]
        cfg = ck.cfg_with("Trace_Syncer.cfg", over, name=f"rt{i}.cfg")
        ok, rej = ck.tlc_trace("Trace_Syncer", cfg, p, tag=f"rt{i}")
        if not ok:
            ck.violation({"kind": "property", "invariant": rej.get("invariant")}, json.dumps(rej)[:300],
                         {"trace": c["trace"], "reject": rej})
    ck.cov["evaluations"] = len(d["items"])
    ck.cov["distinct_nontrivial"] = len(d["items"])
