"""C43 — transaction submission keeps account sequences consistent.

spec/TxClientProp.tla  property layer: a monitor over what the node sees (account answer, estimations,
                       broadcasts with signed sequence and byte identity, status answers, ends) keeping
                       the set of sequences the client may believe current; clauses A (signed with a
                       believed sequence), B (+1 per accepted broadcast), C (mismatch resynchronises to
                       the expected value), D (re-broadcast during confirmation is byte-identical).
spec/TxClient.tla      algorithmic layer: sign_and_broadcast_tx / broadcast_tx_with_account /
                       confirm_tx with the FIFO account lock, against a node that may give any answer.
  MC    TLC exhaustive for 2 (quick) / 3 (thorough) concurrent submissions, all answers, bounded
        number of prolonging answers; invariants TypeOK, LockOK, PropOK, BeliefOK.
  ->B   Gen_TxClient: every gated schedule (start of a submission / one answer to one parked request)
        as one behaviour; h-grpc replays each on the real GrpcClient (real signer, real protobuf) against
        the in-process fake node and compares the observed event list (signed sequences, byte identity).
  <-B   seeded random schedules and answers, gated (paused current-thread runtime) and free-running
        (4 worker threads), with and without gas estimation; Trace_TxClientProp validates every run
        (reject = violation), Trace_TxClient validates against the algorithm (reject alone = drift).
"""
import json
import os
import re

import vf

PROPS = ["C43"]

ENTRIES = {
    "C43": {
        "text": "spec/TxClient.tla models the client protocol of grpc/src/client.rs (account lock with FIFO queue, "
                "optional gas estimation, sign with the cached sequence, broadcast, +1 on ok / already-in-mempool-cache, "
                "resynchronise on mismatch, confirmation loop over pending / committed / rejected (roll-back unless a "
                "sequence error) / evicted / unknown with byte-identical re-broadcast) against a node that may give any "
                "answer; TLC checks exhaustively for 2-3 concurrent submissions that the node-side observation history "
                "satisfies the clauses of the statement (TxClientProp). Every schedule TLC generates (start a submission / "
                "answer one parked request) is replayed on the real GrpcClient with a real secp256k1 signer against an "
                "in-process fake node that decodes every broadcast TxRaw / BlobTx to read the signed sequence and compares "
                "byte strings; the observed event list must equal the expected one. Seeded random schedules and answers "
                "(gated and free-running on 4 threads, MsgSend and blob submissions, with and without gas estimation, "
                "several concrete encodings of each answer: TxResponse codes 32/3, gRPC status with the mismatch message) "
                "are recorded and validated by TLC against the property-layer and the algorithmic trace specifications.",
        "design_ref": "7 C43",
        "note": "Pipelined family (spec/TxPipeline.tla): the client composed with an honest node (committed sequence, mempool, "
                "blocks that reject the k-th transaction for a non-sequence reason and the later ones for their sequence); TLC "
                "checks for 3 submissions in flight that whenever nothing is in flight the cached sequence is the one the node "
                "expects; recorded pipelined rounds against the honest fake node are validated by Trace_TxHonest (clause E). "
                "The family's discipline: no new transaction while a rejection is outstanding, no block while a transaction is "
                "being prepared (the code as it is races there). "
                "A violation is raised only by the property-layer trace specs. The statement is silent about the roll-back "
                "after a `rejected` status: the property layer accepts a client that rolls back to the rejected tx's "
                "sequence and one that does not (the algorithmic layer pins the code's behaviour; a difference there is "
                "drift). The node is adversarial (any answer at any time), not a model of celestia-app; account query and "
                "latest block always succeed; one endpoint; time is virtual (confirmation interval 1 ms, paused clock). "
                "Byte identity is judged on the bytes the node receives.",
        "technique": "TLA+ spec + TLC exhaustive; TLC-generated schedules replayed on the real client against a fake gRPC "
                     "node; TLC trace validation (property layer and algorithm layer) of recorded runs",
    },
}

SUBS6 = "{1, 2, 3, 4, 5, 6}"


def _cap_runs(path, limit=40):
    """Keep only the first `limit` runs of a file of deviating runs (the property layer judges each of them; thousands of
    identical deviations of a broken tree add nothing but time)."""
    out, n = [], 0
    for ln in open(path):
        if '"name":"reset"' in ln.replace(" ", ""):
            n += 1
            if n > limit:
                break
        out.append(ln)
    open(path, "w").writelines(out)


def _clause(ck, tag):
    try:
        text = open(os.path.join(ck.work, tag + ".out")).read()
    except OSError:
        return None
    m = re.search(r'<<"CLAUSE", "([^"]+)">>', text)
    return m.group(1) if m else "structure"


def _validate(ck, trace, direction, est, rerun=None, subs=SUBS6):
    dtag = re.sub(r"\W+", "_", direction) + ("_est" if est else "")
    prop_cfg = ck.cfg_with("Trace_TxClientProp.cfg", {"Subs": subs}, name=f"TraceProp_{dtag}.cfg")
    alg_cfg = ck.cfg_with("Trace_TxClient.cfg", {"Subs": subs, "UseEst": "TRUE" if est else "FALSE"},
                          name=f"TraceAlg_{dtag}.cfg")
    bad_runs = []

    def on_reject(rej, run_lines, idx):
        p = f"{ck.work}/bad_{dtag}_{len(bad_runs)}.ndjson"
        open(p, "w").write("\n".join(run_lines) + "\n")
        tag = f"clause_{dtag}_{len(bad_runs)}"
        ck.tlc_trace("Trace_TxClientProp", prop_cfg, p, tag=tag)
        clause = _clause(ck, tag)
        bad_runs.append(run_lines[0])
        head = json.loads(run_lines[0])
        ev = rej["event"] if isinstance(rej.get("event"), dict) else {}
        ck.violation({"direction": direction, "clause": clause, "mode": head.get("mode", "gated-replay"),
                      "answer": f"{ev.get('name')}:{ev.get('ans')}"},
                     f"{direction}: event {idx} of run not allowed by TxClientProp ({clause}): {json.dumps(ev)[:240]}",
                     {"trace": run_lines, "reject": rej, "clause": clause, "rerun": rerun, "est": est})

    ck.validate_trace_runs("Trace_TxClientProp", prop_cfg, trace, on_reject, max_rejects=5)

    def on_drift(rej, run_lines, idx):
        if run_lines[0] in bad_runs:
            return
        ck.cov["drift"] += 1
        vf.log(f"DRIFT property=C43 {direction}: run not explained by the algorithmic layer at event {idx}: "
               f"{json.dumps(rej.get('event'))[:240]}")

    ck.validate_trace_runs("Trace_TxClient", alg_cfg, trace, on_drift, max_rejects=5)


def _validate_honest(ck, trace, rerun):
    """Clause E on runs recorded against the honest node (Trace_TxHonest)."""
    cfg = ck.cfg_with("Trace_TxHonest.cfg", {"Subs": SUBS6})
    n = [0]

    def on_reject(rej, run_lines, idx):
        p = f"{ck.work}/bad_honest_{n[0]}.ndjson"
        open(p, "w").write("\n".join(run_lines) + "\n")
        tag = f"clause_honest_{n[0]}"
        n[0] += 1
        ck.tlc_trace("Trace_TxHonest", cfg, p, tag=tag)
        clause = _clause(ck, tag)
        ev = rej["event"] if isinstance(rej.get("event"), dict) else {}
        ck.violation({"direction": "impl->spec/honest", "clause": clause, "mode": "honest",
                      "answer": f"{ev.get('name')}:{ev.get('ans')}"},
                     f"honest node: event {idx} of run not allowed ({clause}): signed {ev.get('q')}, node expects "
                     f"{ev.get('nx')}: {json.dumps(ev)[:200]}",
                     {"trace": run_lines, "reject": rej, "clause": clause, "rerun": rerun, "est": False})

    ck.validate_trace_runs("Trace_TxHonest", cfg, trace, on_reject, max_rejects=5)


def _gen_and_replay(ck, hb, i, consts, est, simulate=None):
    cfg = ck.cfg_with("Gen_TxClient.cfg", consts, name=f"Gen_TxClient_{i}.cfg")
    cases, _ = ck.tlc_gen("Gen_TxClient", cfg, f"cases_{i}.ndjson", tag=f"gen_{i}", count_stats=False,
                          simulate=simulate, timeout=900 if ck.quick else 3000)
    if simulate:
        # simulation may visit the same terminal state twice
        seen, uniq = set(), []
        for ln in open(cases):
            if ln not in seen:
                seen.add(ln)
                uniq.append(ln)
        open(cases, "w").writelines(uniq)
    dev = f"{ck.work}/dev_{i}.ndjson"
    s = ck.harness(hb, ["replay", "txclient", cases, "--out", f"{ck.work}/obs_{i}.ndjson", "--dev", dev,
                        "--seed", ck.seed + i], f"replay_{i}")
    ck.absorb(s)
    if s.get("extra", {}).get("deviating_runs", 0):
        vf.log(f"[C43] {s['extra']['deviating_runs']} replayed schedules of generation {i} deviate from the expected "
               f"event list; judged by the property layer")
        _cap_runs(dev)
        _validate(ck, dev, f"spec->impl/{i}", est, rerun={"kind": "replay"})
    os.remove(f"{ck.work}/obs_{i}.ndjson")


def run(ck):
    hb = ck.build("h-grpc")
    # 1. model checking of the design
    if ck.quick:
        mcs = [("{1, 2}", 2, 2, "FALSE"), ("{1, 2}", 2, 1, "TRUE"), ("{1, 2, 3}", 1, 1, "FALSE")]
    else:
        mcs = [("{1, 2}", 2, 3, "FALSE"), ("{1, 2}", 2, 2, "TRUE"), ("{1, 2, 3}", 2, 2, "FALSE"), ("{1, 2, 3}", 1, 1, "TRUE")]
    for i, (subs, maxseq, fuel, est) in enumerate(mcs):
        cfg = ck.cfg_with("MC_TxClient.cfg", {"Subs": subs, "MaxSeq": maxseq, "Fuel": fuel, "UseEst": est},
                          name=f"MC_TxClient_{i}.cfg")
        req = ["Begin", "Acct", "HaveAcct", "Enqueue", "Grant", "Bcast", "Status", "Rebcast", "Return"]
        if est == "TRUE":
            req.append("Est")
        ck.tlc_mc("MC_TxClient", cfg, tag=f"mc_{i}", required_actions=req, timeout=1500 if ck.quick else 5000)
    # pipelined submissions against the honest node (clause E: when nothing is in flight the next signature carries the
    # sequence the node expects)
    pcfg = ck.cfg_with("MC_TxPipeline.cfg", {"Subs": "{1, 2, 3}", "Fuel": 2 if ck.quick else 3})
    ck.tlc_mc("MC_TxPipeline", pcfg, tag="mc_pipeline", required_actions=["HBegin", "HBcast", "Block", "HStatus"],
              timeout=1500)
    # 2. spec -> impl
    base = {"Subs": "{1, 2}", "MaxSeq": 2, "Fuel": 1, "UseEst": "FALSE", "Q0": 1, "MaxConc": 2}
    if ck.quick:
        _gen_and_replay(ck, hb, 0, base, False)
        _gen_and_replay(ck, hb, 1, dict(base, UseEst="TRUE", Fuel=2, MaxSeq=3), True, simulate=(1500, 60))
        _gen_and_replay(ck, hb, 2, dict(base, Subs="{1, 2, 3}", MaxConc=3, Fuel=3, MaxSeq=4, Q0=2), False, simulate=(1500, 80))
    else:
        _gen_and_replay(ck, hb, 0, dict(base, Fuel=2), False)
        _gen_and_replay(ck, hb, 1, dict(base, UseEst="TRUE"), True)
        _gen_and_replay(ck, hb, 2, dict(base, Subs="{1, 2, 3}", MaxConc=3, Fuel=4, MaxSeq=4, Q0=2), False, simulate=(40000, 100))
        _gen_and_replay(ck, hb, 3, dict(base, Subs="{1, 2, 3}", MaxConc=3, Fuel=4, MaxSeq=4, Q0=2, UseEst="TRUE"), True,
                        simulate=(40000, 120))
    # 3. impl -> spec
    runs = 40 if ck.quick else 500
    for mode in ("gated", "free"):
        for est in (0, 1):
            trace = f"{ck.work}/trace_{mode}_{est}.ndjson"
            s = ck.harness(hb, ["record", "txclient", "--seed", ck.seed, "--out", trace, "--runs", runs, "--subs", 6,
                                "--mode", mode, "--est", est], f"record_{mode}_{est}")
            ck.absorb(s)
            for line in open(trace):
                if '"name":"stuck"' in line:
                    raise vf.ToolError(f"harness: gated run got stuck: {line[:200]}")
            _validate(ck, trace, f"impl->spec/{mode}", bool(est),
                      rerun={"kind": "record", "mode": mode, "seed": ck.seed, "runs": runs, "est": est})
    # honest node, pipelined rounds: property layer incl. clause E, algorithmic layer
    hruns = 60 if ck.quick else 600
    trace = f"{ck.work}/trace_honest.ndjson"
    s = ck.harness(hb, ["record", "txclient", "--seed", ck.seed, "--out", trace, "--runs", hruns, "--subs", 6,
                        "--mode", "honest", "--est", 0], "record_honest")
    ck.absorb(s)
    for line in open(trace):
        if '"name":"stuck"' in line:
            raise vf.ToolError(f"harness: honest run got stuck: {line[:200]}")
    rr = {"kind": "record", "mode": "honest", "seed": ck.seed, "runs": hruns, "est": 0}
    _validate(ck, trace, "impl->spec/honest", False, rerun=rr)
    _validate_honest(ck, trace, rr)
    ck.cov["exhaustive"] = True
    ck.cov["rule"] = ("spec->impl: one case = one complete schedule generated by TLC (exhaustive for 2 submissions, simulated "
                      "for 3 / with estimation in the quick tier); non-trivial = distinct schedule containing a mismatch, "
                      "mempool-cache hit, rejection, eviction or unknown answer. impl->spec: one case = one recorded "
                      "submission; non-trivial = distinct answer sequence containing one of those answers.")
    ck.assumptions += [
        "the fake node's account query and latest-block answers always succeed; a single endpoint is configured",
        "the sequence the client believes current is observed only through what it signs (no hook in the grpc crate)",
        "in the gated modes the client runs single-threaded to quiescence between two answers; other interleavings "
        "are covered by TLC on the model and by the free-running mode",
    ]


def replay(ck):
    """Re-executes the real client (see checks/failover.py:replay for the scheme)."""
    hb = ck.build("h-grpc")
    d = json.load(open(ck.replay))
    done = set()
    for k, it in enumerate(d["items"]):
        c = it["case"]
        rr = c.get("rerun") or {}
        if rr.get("kind") == "record":
            key = json.dumps(rr, sort_keys=True)
            if key in done:
                continue
            done.add(key)
            trace = f"{ck.work}/replay_{k}.ndjson"
            s = ck.harness(hb, ["record", "txclient", "--seed", rr["seed"], "--out", trace, "--runs", rr["runs"], "--subs", 6,
                                "--mode", rr["mode"], "--est", rr["est"]], f"rerecord_{k}")
            ck.absorb(s)
            _validate(ck, trace, d["class"].get("direction", "replay"), bool(rr["est"]), rerun=rr)
            if rr["mode"] == "honest":
                _validate_honest(ck, trace, rr)
        else:
            head = json.loads(c["trace"][0])
            cases = f"{ck.work}/replay_case_{k}.ndjson"
            open(cases, "w").write(json.dumps({"q0": head["q0"], "est": head["est"], "hist": head["expected"]}) + "\n")
            dev = f"{ck.work}/replay_dev_{k}.ndjson"
            s = ck.harness(hb, ["replay", "txclient", cases, "--out", f"{ck.work}/replay_obs_{k}.ndjson", "--dev", dev,
                                "--seed", ck.seed], f"replay_{k}")
            ck.absorb(s)
            if os.path.getsize(dev):
                _validate(ck, dev, "spec->impl", bool(head["est"]), rerun={"kind": "replay"})
