"""C36: the pruner's window-edge search.

spec/WindowSearch.tla: AllowedAns(S, c) is the statement as a set of permitted answers;
AdmissiblePrev the previous answers a caller may pass.  MC_WindowSearch: the search inside the
pruner's usage pattern (cutoff advances, heights get pruned, answers are fed back) with
invariants AnswerExists, UniqueNoTie, PrevAdmissible, Monotone.  Gen_WindowSearch: the full table
(stored set x cutoff incl. ties x admissible previous answers) -> allowed answers; h-node runs the
real find_height_after_window (combined, fast-only, slow-only) on a real store with fresh caches
and with one cache shared over increasing cutoffs.
"""
import json
import vf

PROPS = ["C36"]
ENTRIES = {
    "C36": {
        "text": "TLC enumerates every stored set over 1..N (N=5 quick, 8 thorough), every cutoff position including "
                "ties and every admissible previous answer (also one whose height has since been removed) and states "
                "the set of answers the property allows; the real search (combined, fast path alone, slow path alone; "
                "fresh cache and cache shared across increasing cutoffs) runs on a real in-memory store for every case "
                "and must return an allowed answer (the fast path may also say 'undecided').",
        "design_ref": "7 C36",
        "note": "Header times are 2h seconds apart from a base in the past; only admissible previous answers are used "
                "(the statement's precondition). Stores that changed by insertion between calls are exercised through "
                "the real Pruner in C35.",
        "technique": "TLA+ relation + TLC exhaustive table replayed into Rust (spec->impl)",
    },
}


def run(ck):
    n = 5 if ck.quick else 8
    hb = ck.build("h-node")
    ck.tlc_mc("MC_WindowSearch", ck.cfg_with("MC_WindowSearch.cfg", {"N": min(n, 6)}),
              required_actions=["Advance", "RemoveH", "Search"])
    cases, _ = ck.tlc_gen("Gen_WindowSearch", ck.cfg_with("Gen_WindowSearch.cfg", {"N": n}), "cases.ndjson",
                          count_stats=False, timeout=3000)
    s = ck.harness(hb, ["replay", "windowsearch", cases, "--n", n], "replay")
    ck.absorb(s, lambda v: v.get("class", {}))
    ck.cov["exhaustive"] = True
    ck.cov["rule"] = ("every (stored set, cutoff, admissible prev, mode, cache) over 1..N; non-trivial = stored set "
                      "with >= 2 runs")


def replay(ck):
    hb = ck.build("h-node")
    d = json.load(open(ck.replay))
    cases = f"{ck.work}/replay_cases.ndjson"
    with open(cases, "w") as f:
        for it in d["items"]:
            f.write(json.dumps(it["case"]["case"]) + "\n")
    s = ck.harness(hb, ["replay", "windowsearch", cases, "--n", 8], "replay")
    ck.absorb(s, lambda v: v.get("class", {}))
