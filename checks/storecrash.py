"""C22 (the redb store survives a crash at any point).

spec/StoreCrash.tla: Store.tla + a medium with a volatile write cache; an operation = one
  copy-on-write transaction (page writes, commit slot, sync) ; Crash keeps any subset of the
  unsynced writes; recovery takes the newest commit slot whose pages survived.
  MC:  CrashSafe (every crash image recovers to the state after the acknowledged operations or
       after the one in flight, indexes consistent) holds for the design (one transaction per
       operation, durable commits) and TLC refutes it for the two design mutants
       (MC_StoreCrash_split.cfg, MC_StoreCrash_nodur.cfg).
  <-B: h-redb runs seeded operation histories on a real RedbStore over a journaling
       redb::StorageBackend, materialises the image at every journal boundary (synced only / all /
       random subsets of the unsynced writes), reopens it with RedbStore::new and logs the
       projection; Trace_StoreCrash accepts a recovered event only if StoreCrash!RecoveredOK holds.
"""
import json
import vf

PROPS = ["C22"]

ENTRIES = {
    "C22": {
        "text": "spec/StoreCrash.tla extends the abstract store with a crash-prone medium (write cache, sync, "
                "copy-on-write transactions, recovery by newest valid commit slot); TLC proves CrashSafe - after a "
                "crash keeping any subset of the unsynced writes the reopened store equals the state after the "
                "acknowledged operations or after the in-flight one, with header/hash/range/metadata tables "
                "consistent - for one durable transaction per operation and refutes it for split or non-durable "
                "commits. Seeded histories (inserts incl. rejected ones, removals, marks, metadata updates) run on "
                "a real RedbStore over an in-memory redb::StorageBackend that journals every write/set_len/sync; "
                "for every journal boundary after RedbStore::new returned, the images 'unsynced writes dropped', "
                "'all kept' and seeded random subsets of whole unsynced writes are reopened through "
                "Database::builder().create_with_backend + RedbStore::new and fully projected; Trace_StoreCrash "
                "(TLC) decides acked/in-flight from the journal positions and accepts only a successful reopen "
                "whose projection satisfies RecoveredOK.",
        "design_ref": "7 C22",
        "note": "Crash points start after the first RedbStore::new returned (images cut inside the first "
                "initialisation of an empty file are refused by redb). Whole writes only (no torn writes); random "
                "subsets are sampled, not enumerated. The model's medium abstracts redb's commit protocol, which "
                "is exercised for real by the binding but trusted in the model.",
        "technique": "TLA+ crash/recovery model checked by TLC; fault-injecting storage backend; TLC trace validation",
    },
}


def params(ck):
    # chunks, runs per chunk, ops, universe length, random subsets per crash point, and the number of
    # unsynced writes up to which every survivor subset is enumerated instead of sampled
    return (1, 12, 12, 14, 3, 5) if ck.quick else (5, 4, 30, 24, 4, 7)


def slim(run_lines, idx):
    """The part of a run that explains a rejected event: header descriptors, operations, and the
    crash/recovered pair that was rejected."""
    keep = [ln for ln in run_lines if '"name":"reset"' in ln or '"name":"hdr"' in ln or '"name":"op"' in ln]
    ev = json.loads(run_lines[idx - 1]) if 0 < idx <= len(run_lines) else {}
    if ev.get("name") == "recovered" and idx >= 2:
        return keep + [run_lines[idx - 2], run_lines[idx - 1]], json.loads(run_lines[idx - 2]), ev
    return run_lines[:idx], {}, ev


def validate(ck, trace, meta):
    def on_reject(rej, run_lines, idx):
        lines, crash, ev = slim(run_lines, idx)
        if ev.get("name") == "recovered":
            kind = "reopen-failed" if ev.get("ok") != 1 else "recovered-state-not-an-allowed-prefix"
            cls = {"kind": kind, "mode": crash.get("mode"), "in_flight": crash.get("infl")}
            if ev.get("ok") != 1:
                cls["stage"] = ev.get("stage")
            why = (f"crash at journal position {crash.get('p')} ({crash.get('mode')}, {crash.get('kept')} of "
                   f"{crash.get('unsynced')} unsynced writes kept, acked={crash.get('acked')}, in flight="
                   f"{crash.get('infl')}): " + (f"reopening failed: {ev.get('err')}" if ev.get("ok") != 1 else
                   f"recovered stored={ev['st']['stored']} sampled={ev['st']['sampled']} pruned={ev['st']['pruned']} "
                   "is neither the state after the acknowledged operations nor after the in-flight one, or its "
                   "indexes disagree"))
        else:
            cls = {"kind": "trace-malformed", "event": ev.get("name")}
            why = f"event {idx} of a history was not accepted: {json.dumps(ev)[:300]}"
        run = json.loads(run_lines[0]).get("run")
        ck.violation(cls, why, dict(meta, run=run, trace=lines, reject=rej))

    tr_cfg = ck.cfg_with("Trace_StoreCrash.cfg")
    return ck.validate_trace_runs("Trace_StoreCrash", tr_cfg, trace, on_reject)


def run(ck):
    hb = ck.build("h-redb")
    # 1. the design, exhaustively in the small scope; the mutants must be refuted (the invariant is not vacuous)
    over = {"MaxOps": 2, "MaxCrashes": 1} if ck.quick else {"MaxOps": 4, "MaxCrashes": 1}
    ck.tlc_mc("MC_StoreCrash", ck.cfg_with("MC_StoreCrash.cfg", over),
              required_actions=["Begin", "Step", "Ack", "Crash"], timeout=2400)
    for cfg in ("MC_StoreCrash_split.cfg", "MC_StoreCrash_nodur.cfg"):
        r = ck.tlc_mc("MC_StoreCrash", ck.cfg_with(cfg), tag="mc_" + cfg[:-4], expect_violation="CrashSafe",
                      timeout=1200)
        if not r.get("expected_violation_reproduced"):
            raise vf.ToolError(f"vacuity: CrashSafe is not refuted for the design mutant {cfg}")
    # 2. impl -> spec (in chunks, so that one TLC run validates a bounded trace)
    chunks, runs, ops, ln, subsets, exh = params(ck)
    extra = {}
    for c in range(chunks):
        trace = f"{ck.work}/trace{c}.ndjson"
        s = ck.harness(hb, ["record", "storecrash", "--seed", ck.seed, "--out", trace, "--first-run", c * runs,
                            "--runs", runs, "--ops", ops, "--len", ln, "--subsets", subsets, "--exhaustive", exh],
                       f"record{c}",
                       timeout=3000)
        p = s["props"].get("C22", {})
        ck.cov["evaluations"] += p.get("evaluations", 0)
        ck.cov["distinct_nontrivial"] += p.get("distinct_nontrivial", 0)
        if c == 0:
            ck.cov["samples"] += p.get("samples", [])[:4]
        for k in ("images_reopened", "journal_entries", "state_changing_ops", "ops", "full_syncs", "eventual_syncs",
                  "points_with_all_subsets", "points_with_sampled_subsets", "panics"):
            extra[k] = extra.get(k, 0) + s["extra"].get(k, 0)
        if s["extra"].get("panics"):
            ck.violation({"kind": "panic"}, f"a store operation panicked: {s['extra'].get('last_panic')}",
                         {"seed": ck.seed, "params": [c, runs, ops, ln, subsets]})
        validate(ck, trace, {"seed": ck.seed, "ops": ops, "len": ln, "subsets": subsets, "exhaustive": exh})
        if len(ck.violations) >= 20:
            break
    ck.cov["recorded"] = extra
    if extra["state_changing_ops"] < chunks * runs * 2 or ck.cov["distinct_nontrivial"] < 50:
        raise vf.ToolError("vacuity: the recorded histories contain too few crash points inside state-changing operations")
    ck.level = "model_checking"
    ck.cov["rule"] = ("one evaluation = one crash image (journal boundary x {synced, all, survivor subset}) reopened and "
                      "judged by Trace_StoreCrash; non-trivial = an operation that changes the state is in flight and "
                      "at least one write is unsynced. MC: all reachable states of MC_StoreCrash, CrashSafe quantifies "
                      "over every subset of the cached writes in each.")
    ck.assumptions += ["crashes lose whole backend writes only (no torn writes), as in the property's quantifier",
                       "crash points start after RedbStore::new returned on the fresh database",
                       "an eventual sync is a write barrier, not a durability point",
                       "redb's own recovery is part of what is exercised, its commit protocol is abstracted in the model"]


def replay(ck):
    """Re-run the recorded history (same seed / run) on the current tree and validate it again; the
    recorded trace itself is validated too when the history cannot be re-run."""
    hb = ck.build("h-redb")
    d = json.load(open(ck.replay))
    done = set()
    for i, it in enumerate(d["items"]):
        c = it["case"]
        if "run" in c and c.get("seed") is not None and "ops" in c:
            key = (c["seed"], c["run"], c["ops"], c["len"], c["subsets"], c.get("exhaustive", 0))
            if key in done:
                continue
            done.add(key)
            trace = f"{ck.work}/replay{i}.ndjson"
            s = ck.harness(hb, ["record", "storecrash", "--seed", c["seed"], "--out", trace, "--first-run", c["run"],
                                "--runs", 1, "--ops", c["ops"], "--len", c["len"], "--subsets", c["subsets"],
                                "--exhaustive", c.get("exhaustive", 0)],
                           f"replay{i}")
            ck.cov["evaluations"] += s["props"].get("C22", {}).get("evaluations", 0)
            ck.cov["distinct_nontrivial"] += s["props"].get("C22", {}).get("distinct_nontrivial", 0)
            validate(ck, trace, {k: c.get(k, 0) for k in ("seed", "ops", "len", "subsets", "exhaustive")})
        elif "trace" in c:
            p = f"{ck.work}/replay_trace{i}.ndjson"
            open(p, "w").write("\n".join(c["trace"]) + "\n")
            ok, rej = ck.tlc_trace("Trace_StoreCrash", ck.cfg_with("Trace_StoreCrash.cfg"), p, tag=f"rt{i}")
            if not ok:
                ck.violation(d.get("class", {"kind": "trace-reject"}), json.dumps(rej)[:300], c)
