"""C22 (the redb store survives a crash at any point).

spec/StoreCrash.tla: Store.tla + a medium with a volatile write cache; an operation = one
  copy-on-write transaction (page writes, commit slot, sync) ; Crash keeps any subset of the
  unsynced writes; recovery takes the newest commit slot whose pages survived.
  MC:  CrashSafe (every crash image recovers to the state after the acknowledged operations or
       after the one in flight, indexes consistent) holds for the design (one transaction per
       operation whatever its size, durable commits) and TLC refutes it for the three design mutants
       (MC_StoreCrash_split.cfg, MC_StoreCrash_nodur.cfg, MC_StoreCrash_chunk.cfg = a long insert
       committed in parts).
  <-B: h-redb runs seeded operation histories on a real RedbStore over a journaling
       redb::StorageBackend, materialises the image at every journal boundary (synced only / all /
       subsets of the unsynced writes), reopens it with RedbStore::new and logs the projection;
       besides the short histories there are long-chain ones (run ids from 1000) whose inserts carry
       257..1025 headers per call, so that every boundary inside a big operation is a crash point; Trace_StoreCrash accepts a recovered event only if StoreCrash!RecoveredOK holds.
"""
import json
import re
import vf

PROPS = ["C22"]

ENTRIES = {
    "C22": {
        "text": "spec/StoreCrash.tla extends the abstract store with a crash-prone medium (write cache, sync, "
                "copy-on-write transactions, recovery by newest valid commit slot); TLC proves CrashSafe - after a "
                "crash keeping any subset of the unsynced writes the reopened store equals the state after the "
                "acknowledged operations or after the in-flight one, with header/hash/range/metadata tables "
                "consistent - for one durable transaction per operation whatever its size and refutes it for split, "
                "non-durable or chunked (long insert committed in parts) designs. Seeded histories (inserts incl. "
                "rejected ones, removals, marks, metadata updates; long-chain histories whose inserts carry 257..1025 "
                "headers per call) run on "
                "a real RedbStore over an in-memory redb::StorageBackend that journals every write/set_len/sync; "
                "for every journal boundary after RedbStore::new returned, the images 'unsynced writes dropped', "
                "'all kept' and seeded random subsets of whole unsynced writes are reopened through "
                "Database::builder().create_with_backend + RedbStore::new and fully projected; Trace_StoreCrash "
                "(TLC) decides acked/in-flight from the journal positions and accepts only a successful reopen "
                "whose projection satisfies RecoveredOK.",
        "design_ref": "7 C22",
        "note": "Crash points start after the first RedbStore::new returned (images cut inside the first "
                "initialisation of an empty file are refused by redb). Whole writes only (no torn writes); random "
                "subsets are sampled, not enumerated. The model's medium abstracts redb's commit protocol, which "
                "is exercised for real by the binding but trusted in the model.",
        "technique": "TLA+ crash/recovery model checked by TLC; fault-injecting storage backend; TLC trace validation",
    },
}


def params(ck):
    # chunks, runs per chunk, ops, universe length, random subsets per crash point, and the number of
    # unsynced writes up to which every survivor subset is enumerated instead of sampled
    return (1, 10, 14, 14, 3, 5) if ck.quick else (4, 4, 30, 24, 4, 7)


def big_params(ck):
    # long-chain histories (one trace each): runs, ops, chain length.  Their inserts carry 257..1025
    # headers per call; the first operation of each is such an insert.
    return (2, 3, 1100) if ck.quick else (5, 6, 1100)


def validate(ck, trace, meta, tag="trace"):
    """One TLC pass over the trace.  Trace_StoreCrash judges every crash image; images it rejects are
    printed as <<"REJECTED", position>> and validation continues (the images are independent), so
    one finding cannot hide another in the same history."""
    tr_cfg = ck.cfg_with("Trace_StoreCrash.cfg")
    ok, rej = ck.tlc_trace("Trace_StoreCrash", tr_cfg, trace, tag=tag, timeout=2400)
    lines = open(trace).read().splitlines()
    starts = [i for i, ln in enumerate(lines) if '"name":"reset"' in ln]
    out = open(f"{ck.work}/{tag}.out").read()
    rejected = sorted({int(m) for m in re.findall(r'<<"REJECTED", (\d+)>>', out)})
    bad_runs = set()
    # operations after which the live store did not show the state / result class Store.tla gives:
    # conformance of the running store is C19/C20's subject - here it is logged (it explains the
    # rejected crash images that follow: those are judged against the model's state)
    diverged = set()
    for n in sorted({int(m) for m in re.findall(r'<<"OPDIFF", (\d+)>>', out)}):
        ev = json.loads(lines[n - 1])
        ck.cov["drift"] += 1
        ck.cov["live_store_differs_from_model_after_ops"] = ck.cov.get("live_store_differs_from_model_after_ops", 0) + 1
        k = max(i for i in starts if i < n)
        if k in diverged:       # only the first divergence of a history is informative
            continue
        diverged.add(k)
        vf.log(f"DRIFT property=C22 after operation {ev.get('i')} ({ev.get('op')} h={ev.get('h')} res={ev.get('res')}) the "
               f"live store does not show the state Store.tla gives: stored={ev['st']['stored']} "
               f"sampled={ev['st']['sampled']} pruned={ev['st']['pruned']}")

    def run_of(n):  # n: 1-based line number
        k = max(i for i in starts if i < n)
        return k, json.loads(lines[k]).get("run")

    if not ok:
        # the trace itself is not of the expected shape (never the case for a recorded history)
        at = rej.get("at", 0)
        ev = rej.get("event") if isinstance(rej.get("event"), dict) else {}
        k, run = run_of(max(at, 1)) if starts else (0, None)
        bad_runs.add(run)
        ck.violation({"kind": "trace-malformed", "event": ev.get("name")},
                     f"event {at} of the trace was not accepted: {json.dumps(ev)[:300]}", dict(meta, run=run, reject=rej))
    for n in rejected[:200]:
        ev, crash = json.loads(lines[n - 1]), json.loads(lines[n - 2])
        k, run = run_of(n)
        if crash.get("mode") == "subset-lostlen":
            # beyond the property's fault model (a file-size change is lost, a later write survives)
            ck.cov["drift"] += 1
            b = ck.cov.setdefault("beyond_fault_model", {"lost_file_size_change_images_rejected": 0, "example": None})
            b["lost_file_size_change_images_rejected"] += 1
            if b["example"] is None:
                b["example"] = {"run": run, "crash": crash, "recovered": {k2: v for k2, v in ev.items() if k2 != "st"}}
                vf.log(f"DRIFT property=C22 crash image with a lost file-size change (beyond the property's fault "
                       f"model) does not recover: {json.dumps(b['example'])[:300]}")
            continue
        bad_runs.add(run)
        kind = "reopen-failed" if ev.get("ok") != 1 else "recovered-state-not-an-allowed-prefix"
        cls = {"kind": kind, "mode": crash.get("mode"), "in_flight": crash.get("infl"),
               "lost_growth": crash.get("lost_growth", 0)}
        if ev.get("ok") != 1:
            cls["stage"] = ev.get("stage")
        why = (f"crash at journal position {crash.get('p')} ({crash.get('mode')}, {crash.get('kept')} of "
               f"{crash.get('unsynced')} unsynced writes kept, acked={crash.get('acked')}, in flight="
               f"{crash.get('infl')}): " + (f"reopening failed: {ev.get('err')}" if ev.get("ok") != 1 else
               f"recovered stored={ev['st']['stored']} sampled={ev['st']['sampled']} pruned={ev['st']['pruned']} "
               "is neither the state after the acknowledged operations nor after the in-flight one, or its "
               "indexes disagree"))
        ops = [json.loads(ln) for ln in lines[k:n] if '"name":"op"' in ln]
        hist = [{"i": o["i"], "op": o["op"], "res": o["res"], "jb": o["jb"], "je": o["je"],
                 "stored": o["st"]["stored"], "sampled": o["st"]["sampled"], "pruned": o["st"]["pruned"]} for o in ops]
        ck.violation(cls, why, dict(meta, run=run, history=hist, crash=crash,
                                    recovered={k2: v for k2, v in ev.items() if k2 != "st"} | (
                                        {"stored": ev["st"]["stored"], "sampled": ev["st"]["sampled"],
                                         "pruned": ev["st"]["pruned"]} if ev.get("ok") == 1 else {})))
    ck.cov["traces_validated_against_impl"] += len(starts) - len(bad_runs)
    ck.cov["crash_images_rejected"] = ck.cov.get("crash_images_rejected", 0) + len(rejected)
    return len(rejected)


def common_args(m):
    return ["--ops", m["ops"], "--len", m["len"], "--subsets", m["subsets"], "--exhaustive", m.get("exhaustive", 0),
            "--big-ops", m.get("big_ops", 6), "--big-len", m.get("big_len", 1100)]


def run(ck):
    hb = ck.build("h-redb")
    # 1. the design, exhaustively in the small scope; the mutants must be refuted (the invariant is not vacuous)
    over = {"MaxOps": 2, "MaxCrashes": 1} if ck.quick else {"MaxOps": 4, "MaxCrashes": 1}
    ck.tlc_mc("MC_StoreCrash", ck.cfg_with("MC_StoreCrash.cfg", over),
              required_actions=["BeginOp", "Step", "Ack", "Crash"], timeout=2400)
    for cfg in ("MC_StoreCrash_split.cfg", "MC_StoreCrash_nodur.cfg", "MC_StoreCrash_chunk.cfg"):
        r = ck.tlc_mc("MC_StoreCrash", ck.cfg_with(cfg), tag="mc_" + cfg[:-4], expect_violation="CrashSafe",
                      timeout=1200)
        if not r.get("expected_violation_reproduced"):
            raise vf.ToolError(f"vacuity: CrashSafe is not refuted for the design mutant {cfg}")
    # 2. impl -> spec (in chunks, so that one TLC run validates a bounded trace)
    chunks, runs, ops, ln, subsets, exh = params(ck)
    bruns, bops, bln = big_params(ck)
    extra = {}
    jobs = [("record%d" % c, ["--first-run", c * runs, "--runs", runs]) for c in range(chunks)]
    jobs += [("big%d" % b, ["--runs", 0, "--big-first", b, "--big-runs", 1]) for b in range(bruns)]
    meta = {"seed": ck.seed, "ops": ops, "len": ln, "subsets": subsets, "exhaustive": exh, "big_ops": bops,
            "big_len": bln}
    for tag, sel in jobs:
        trace = f"{ck.work}/{tag}.ndjson"
        s = ck.harness(hb, ["record", "storecrash", "--seed", ck.seed, "--out", trace] + sel + common_args(meta),
                       tag, timeout=3000)
        p = s["props"].get("C22", {})
        ck.cov["evaluations"] += p.get("evaluations", 0)
        ck.cov["distinct_nontrivial"] += p.get("distinct_nontrivial", 0)
        if tag in ("record0", "big0"):
            ck.cov["samples"] += p.get("samples", [])[:3]
        for k in ("images_reopened", "journal_entries", "state_changing_ops", "ops", "full_syncs", "eventual_syncs",
                  "points_with_all_subsets", "points_with_sampled_subsets", "big_inserts_committed",
                  "journal_entries_in_big_inserts", "failed_ops", "retried_failed_ops", "failed_then_ok_remove",
                  "failed_then_ok_mark", "failed_then_ok_meta", "panics"):
            extra[k] = extra.get(k, 0) + s["extra"].get(k, 0)
        if s["extra"].get("panics"):
            ck.violation({"kind": "panic"}, f"a store operation panicked: {s['extra'].get('last_panic')}",
                         dict(meta, job=tag))
        validate(ck, trace, meta, tag="trace_" + tag)
        if len(ck.violations) >= 40:
            break
    ck.cov["recorded"] = extra
    if not ck.violations:  # the vacuity thresholds are for complete runs (the loop stops early on findings)
        if extra["state_changing_ops"] < chunks * runs * 2 or ck.cov["distinct_nontrivial"] < 50:
            raise vf.ToolError("vacuity: the recorded histories contain too few crash points inside "
                               "state-changing operations")
        again = [extra["failed_then_ok_remove"], extra["failed_then_ok_mark"], extra["failed_then_ok_meta"]]
        if extra["failed_ops"] < chunks * runs or min(again) < 1 or sum(again) < 6:
            raise vf.ToolError("vacuity: too few failing operations, or operations that failed first and succeeded "
                               "later on the same store handle, in the histories")
        if extra["big_inserts_committed"] < bruns or extra["journal_entries_in_big_inserts"] < 100 * bruns:
            raise vf.ToolError("vacuity: no crash points inside inserts of more than 256 headers")
    ck.level = "model_checking"
    ck.cov["rule"] = ("one evaluation = one crash image (journal boundary x {synced, all, survivor subset}) reopened and "
                      "judged by Trace_StoreCrash; non-trivial = an operation that changes the state is in flight and "
                      "at least one write is unsynced. MC: all reachable states of MC_StoreCrash, CrashSafe quantifies "
                      "over every subset of the cached writes in each.")
    ck.assumptions += ["crashes lose whole backend writes only (no torn writes), as in the property's quantifier",
                       "crash points start after RedbStore::new returned on the fresh database",
                       "an eventual sync is a write barrier, not a durability point",
                       "a file-size change survives whenever a later backend call survives (it is not one of the "
                       "'whole writes' the statement lets a crash lose); images violating this are drift only",
                       "redb's own recovery is part of what is exercised, its commit protocol is abstracted in the model"]


def replay(ck):
    """Re-run the recorded history (same seed / run id, run ids from 1000 are the long-chain
    histories) on the current tree and validate it again."""
    hb = ck.build("h-redb")
    d = json.load(open(ck.replay))
    done = set()
    for i, it in enumerate(d["items"]):
        c = it["case"]
        if c.get("run") is None or c.get("seed") is None:
            continue
        key = (c["seed"], c["run"])
        if key in done:
            continue
        done.add(key)
        trace = f"{ck.work}/replay{i}.ndjson"
        sel = (["--runs", 0, "--big-first", c["run"] - 1000, "--big-runs", 1] if c["run"] >= 1000
               else ["--first-run", c["run"], "--runs", 1])
        s = ck.harness(hb, ["record", "storecrash", "--seed", c["seed"], "--out", trace] + sel + common_args(c),
                       f"replay{i}")
        ck.cov["evaluations"] += s["props"].get("C22", {}).get("evaluations", 0)
        ck.cov["distinct_nontrivial"] += s["props"].get("C22", {}).get("distinct_nontrivial", 0)
        validate(ck, trace, {k: c[k] for k in ("seed", "ops", "len", "subsets", "exhaustive", "big_ops", "big_len")
                             if k in c}, tag=f"trace_replay{i}")
