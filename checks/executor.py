"""C42 (task join handles resolve exactly when the task ends).

spec/Executor.tla: a spawned task is polled repeatedly (a cancellable one looks at the cancellation flag
first - biased select), each poll runs the body to its next yield (one logged step) or to its end
(finish / panic); then the drop guard triggers the token and join() resolves.
  MC:   JoinOnlyAfterEnd, OneStepAfterCancel (invariants), NoStepAfterSaw (action property), JoinAlways,
        CancelStops, EverybodyJoins (liveness under weak fairness); two wrong designs must fail.
  ->B:  Gen_Executor derives for every plan (cancellable?, steps, finish/panic, cancelled?) the set of
        allowed outcomes (end kind, step count); h-utils runs every plan and seeded mixes on the real
        executor (multi-thread tokio) and each outcome must be allowed.
  <-B:  the same runs are logged with atomically drawn sequence numbers (step / ended / cancel / join_ret)
        and validated by Trace_Executor with hidden poll-start, cancel-effect and guard-drop steps.
"""
import json
import vf

PROPS = ["C42"]

ENTRIES = {
    "C42": {
        "text": "spec/Executor.tla models lumina_utils::executor::spawn / spawn_cancellable / JoinHandle::join and the "
                "TokenTriggerDropGuard: polls of a task (a cancellable one checks its CancellationToken first), one "
                "logged step per poll, end of the body by return or panic, guard drop triggering the token, join "
                "resolving. TLC checks for 2 tasks and all plans with up to 1 (thorough 3) steps that join() returns only after the "
                "task's future is gone, always returns after that (weak fairness), that a cancelled task stops and "
                "logs at most one step after the cancel took effect and none after a step that saw the flag; a "
                "guard dropped early and an unbiased select are shown to fail. For every plan TLC derives the allowed "
                "outcomes; the harness runs each plan 20 (thorough 200) times alone and in 200 (3000) seeded mixes of "
                "2-6 tasks on a 4-worker tokio runtime with seeded jitter, panics and cancellation points; each "
                "outcome must be allowed and the sequence-numbered log of each run is validated by Trace_Executor.",
        "design_ref": "7 C42",
        "note": "No schedule points in lumina-utils: interleavings are whatever the multi-thread runtime and the seeded "
                "jitter produce (not exhaustive). 'Task ended' is logged at the END of the deliberately slow (20-50 ms) Drop "
                "of a sentinel owned by the spawned future; half of the joiners run on their own OS thread, so a join "
                "that resolves before the future and its state are gone (finished, panicked or cancelled task; spawn and "
                "spawn_cancellable) is observed deterministically (class join-before-end), not in a microsecond window. Hang bound 30 s per run. wasm32 implementation not covered.",
        "technique": "TLA+ spec + TLC (safety, liveness); TLC-derived outcome sets checked on the real executor; TLC trace validation of sequence-numbered logs",
    },
}


def classify(v):
    return {"kind": v.get("kind")}


def _run_real(ck, hb, plans, reps, mixes, seed, tag):
    trace = f"{ck.work}/{tag}.ndjson"
    s = ck.harness(hb, ["record", "executor", "--plans", plans, "--seed", seed, "--reps", reps, "--mixes", mixes,
                        "--sat", 4, "--out", trace], tag, timeout=3000)
    ck.absorb(s, classify)

    def on_reject(rej, run_lines, idx):
        ck.violation({"kind": "trace-reject"},
                     f"log line {idx} of run {json.loads(run_lines[0]).get('run')} is not explained by spec/Executor.tla: "
                     f"{json.dumps(rej.get('event'))[:200]}",
                     {"kind": "trace-reject", "trace": run_lines, "reject": rej})
    ck.validate_trace_runs("Trace_Executor", ck.cfg_with("Trace_Executor.cfg", {}), trace, on_reject)


def run(ck):
    hb = ck.build("h-utils")
    mc = ck.cfg_with("MC_Executor.cfg", {"NTasks": 2, "MaxSteps": 1 if ck.quick else 3})
    ck.tlc_mc("MC_Executor", mc, required_actions=["Cancel", "PollStart", "Step", "End", "DropGuard", "JoinReturn"])
    for dev, inv in [("guard_first", "JoinOnlyAfterEnd"), ("no_bias", ("OneStepAfterCancel", "NoStepAfterSaw"))]:
        cfg = ck.cfg_with("MC_Executor.cfg", {"NTasks": 1, "Deviation": f'"{dev}"'}, name=f"MC_Executor_{dev}.cfg")
        r = ck.tlc_mc("MC_Executor", cfg, tag=f"mc_dev_{dev}", expect_violation=inv)
        if not r.get("expected_violation_reproduced"):
            raise vf.ToolError(f"vacuity: wrong design {dev} is not rejected by spec/Executor.tla")
    gen = ck.cfg_with("Gen_Executor.cfg", {})
    plans, _ = ck.tlc_gen("Gen_Executor", gen, "plans.ndjson", count_stats=False)
    _run_real(ck, hb, plans, 20 if ck.quick else 200, 200 if ck.quick else 3000, ck.seed, "record")
    ck.cov["exhaustive"] = False
    ck.cov["rule"] = ("one evaluation per spawned task; its outcome (end kind, steps) must be in the set TLC derived for "
                      "its plan and its run's log must be accepted by Trace_Executor; non-trivial = task that panics or "
                      "is cancelled after logging a step, counted by distinct (plan, end kind, order of its own "
                      "step/cancel/ended/join events).")
    ck.assumptions += ["sequence numbers are drawn with SeqCst atomics at the logged moment",
                       "runtime threads are scheduled fairly by the OS within the 30 s hang bound"]


def replay(ck):
    """Findings come from seeded but OS-scheduled runs: run the same seeded schedule again."""
    hb = ck.build("h-utils")
    d = json.load(open(ck.replay))
    quick = d.get("tier", "quick") == "quick"
    gen = ck.cfg_with("Gen_Executor.cfg", {})
    plans, _ = ck.tlc_gen("Gen_Executor", gen, "plans.ndjson", count_stats=False)
    _run_real(ck, hb, plans, 20 if quick else 200, 200 if quick else 3000, d.get("seed", ck.seed), "record")
