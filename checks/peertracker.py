"""C39 (peer tracker counts match peer states).

spec/PeerTracker.tla: per-peer state (known, connections, trusted, archival, kind, protect tags), the
published PeerTrackerInfo written only where the code recounts, per-tag counters kept incrementally;
one action per tracker method; Age(p) (hook moving disconnected_at 121 s into the past) makes a disconnected
peer old, gc forgets exactly the old, unconnected, unprotected peers.
  MC:   invariants InfoIsRecount, TagsAreRecount, action property GcKeeps, exhaustive small scope.
  ->B:  Gen_PeerTracker prints the complete transition relation; h-track drives the real tracker into each
        pre-state, applies the operation, compares result / views / published info / tag counters.
  <-B:  seeded histories (8 peers x 3 connections x 3 tags, 10^3 events) validated by Trace_PeerTracker.
Violations are judged on the statement's clauses evaluated on real observations; a difference from the
model that leaves the clauses intact is drift.
"""
import json
import vf

PROPS = ["C39"]

ENTRIES = {
    "C39": {
        "text": "spec/PeerTracker.tla has one action per PeerTracker method (add_peer_id, set_trusted, protect, "
                "unprotect, add/remove_connection, on_agent_version, mark_as_archival, on_ping, gc, plus ageing of a disconnected peer past gc's 120 s limit) over per-peer "
                "state, the published PeerTrackerInfo (rewritten only where the code recounts) and incrementally "
                "kept per-tag counters; TLC checks exhaustively (2 peers x 2 connections x 2 tags quick, 3 peers "
                "thorough) that the published info equals a recount, the tag counters equal the number of peers "
                "holding the tag and gc keeps connected/protected peers. The complete transition relation is "
                "replayed on the real tracker (pre-state built by a canonical event sequence) comparing result, "
                "peer views, watch-channel value, info() and protected_len; seeded histories of 10^3 events over "
                "8 peers x 3 connections x 3 tags are validated line by line by Trace_PeerTracker.",
        "design_ref": "7 C39",
        "note": "Expiry of disconnected peers is reached through a cfg(eigerco_lumina_verif) hook that moves the stored "
                "disconnected_at Instant 121 s into the past (real time is never waited for), for protected and "
                "unprotected, never-connected and disconnected peers. Ping bookkeeping is exercised but not compared. "
                "Exhaustive only in the small scope; 8x3x3 is sampled.",
        "technique": "TLA+ spec + TLC exhaustive transition table replayed into Rust; TLC trace validation of recorded histories",
    },
}


def classify(v):
    return {"kind": v.get("kind"), "op": v.get("op")}


def _trace(ck, cfg_strict, cfg_loose, trace):
    def on_reject(rej, run_lines, idx):
        # tell a broken clause from model drift: re-validate this run with the model following the real views
        p = f"{ck.work}/loose_run.ndjson"
        open(p, "w").write("\n".join(run_lines) + "\n")
        ok, rej2 = ck.tlc_trace("Trace_PeerTracker", cfg_loose, p, tag="trace_loose")
        ev = rej["event"] if isinstance(rej.get("event"), dict) else {}
        if ok:
            ck.cov["drift"] += 1
            vf.log(f"DRIFT property=C39 recorded event {idx} differs from the model but keeps the clauses: {json.dumps(ev)[:300]}")
        else:
            ev2 = rej2["event"] if isinstance(rej2.get("event"), dict) else ev
            ck.violation({"kind": "trace-reject", "op": ev2.get("name")},
                         f"recorded event {rej2['at']} breaks a clause of C39: {json.dumps(ev2)[:300]}",
                         {"kind": "trace-reject", "op": ev2.get("name"), "trace": run_lines[:rej2["at"]], "reject": rej2})
    return ck.validate_trace_runs("Trace_PeerTracker", cfg_strict, trace, on_reject)


def run(ck):
    hb = ck.build("h-track")
    # 1. the design
    if ck.quick:
        mc = ck.cfg_with("MC_PeerTracker.cfg", {"NP": 2, "NC": 2, "NT": 2, "Kinds": "{0, 2, 3}"})
    else:
        mc = ck.cfg_with("MC_PeerTracker.cfg", {"NP": 3, "NC": 2, "NT": 1, "Kinds": "{0, 2, 3}"})
    ck.tlc_mc("MC_PeerTracker", mc, required_actions=[
        "AddPeerId", "SetTrusted", "Protect", "Unprotect", "AddConnection", "RemoveConnection", "AgentVersion",
        "MarkArchival", "Ping", "Gc", "Age"])
    # 2. spec -> impl: the transition relation
    nt = 1 if ck.quick else 2
    gen = ck.cfg_with("Gen_PeerTracker.cfg", {"NP": 2, "NC": 2, "NT": nt,
                                              "Kinds": "{0, 2}" if ck.quick else "{0, 1, 2, 3}"})
    cases, _ = ck.tlc_gen("Gen_PeerTracker", gen, "cases.ndjson", count_stats=False)
    s = ck.harness(hb, ["replay", "peertracker", cases, "--nc", 2, "--nt", nt], "replay")
    ck.absorb(s, classify)
    # 3. impl -> spec
    trace = f"{ck.work}/trace.ndjson"
    s2 = ck.harness(hb, ["record", "peertracker", "--seed", ck.seed, "--out", trace, "--runs", 6 if ck.quick else 60,
                         "--ops", 1000], "record")
    ck.absorb(s2, classify)
    strict = ck.cfg_with("Trace_PeerTracker.cfg", {})
    loose = ck.cfg_with("Trace_PeerTracker.cfg", {"Strict": "FALSE"}, name="Trace_PeerTracker_loose.cfg")
    _trace(ck, strict, loose, trace)
    ck.cov["exhaustive"] = True
    ck.cov["rule"] = ("spec->impl: every transition (operation x argument) of every reachable state of the small "
                      "scope; non-trivial = distinct (op, args, pre-state) whose post-state differs. impl->spec: "
                      "recorded events; non-trivial = distinct (op, args, pre-views) that changed the views.")
    ck.assumptions += ["gc expiry is produced by ageing disconnected_at through a verification hook, not by waiting 120 s",
                       "connection ids are unique per peer (as libp2p hands them out)"]


def replay(ck):
    """Transition cases are replayed on the current tree; recorded-history findings are reproduced by running
    the same seeded (single-threaded, deterministic) driver again and validating its log."""
    hb = ck.build("h-track")
    d = json.load(open(ck.replay))
    cases = f"{ck.work}/replay_cases.ndjson"
    rerun = False
    with open(cases, "w") as f:
        for it in d["items"]:
            c = it["case"]
            if "case" in c:
                f.write(json.dumps(c["case"]) + "\n")
            else:
                rerun = True
    if open(cases).read().strip():
        ck.absorb(ck.harness(hb, ["replay", "peertracker", cases, "--nc", 2, "--nt", 2], "replay"), classify)
    if rerun:
        quick = d.get("tier", "quick") == "quick"
        trace = f"{ck.work}/trace.ndjson"
        s2 = ck.harness(hb, ["record", "peertracker", "--seed", d.get("seed", ck.seed), "--out", trace,
                             "--runs", 6 if quick else 60, "--ops", 1000], "record")
        ck.absorb(s2, classify)
        strict = ck.cfg_with("Trace_PeerTracker.cfg", {})
        loose = ck.cfg_with("Trace_PeerTracker.cfg", {"Strict": "FALSE"}, name="Trace_PeerTracker_loose.cfg")
        _trace(ck, strict, loose, trace)
