"""C35: the pruner only removes blocks that are safe to remove.

spec/Pruner.tla mirrors get_next_prunable_batch (window edges, candidate algebra, edges of the
synced ranges, daser permission) and the removal loop (blockstore CIDs first, then the header)
with an environment of time, inserts, sampling marks and a daser that starts sampling what it
has not promised.  MC_Pruner: TLC exhaustive for both orderings of the two windows with
invariants SafeRemoval (C35) and NoLeak (by-product: no orphan CID in the blockstore).  PrunerBatch.tla refines the
decision into its store calls (cut-offs fixed first, three range reads, decision on the snapshots, removals one by
one) with syncer inserts, sampling starts/ends and the clock interleaved; SafeRemoval is evaluated on the state in
which each removal happens.
<-B: the real Pruner over a recording store and recording blockstore (calls logged at call time)
with a scripted daser that refuses the blocks it 'is sampling' and others by coin; random stores
with gaps, pruned holes, sampled marks, metadata; both window orderings.  Trace_Pruner tracks the
store from the recorded calls and evaluates SafeRemoval at every remove_height.
->B: Gen_Pruner: TLC enumerates every store configuration over 1..N (never synced / pruned / stored / with metadata /
sampled per height) x daser policy, and runs the design to its fixpoint; the harness builds each configuration for
the real pruner; Trace_Pruner judges the recorded run, the design's final store is compared as drift.
"""
import json
import vf

PROPS = ["C35"]
ENTRIES = {
    "C35": {
        "text": "TLC checks SafeRemoval on the pruner model for both window orderings (exhaustive, N=4/5); recorded "
                "runs of the real Pruner (recording store + blockstore, scripted daser granting/refusing, random "
                "stores with gaps / holes / sampled sets / metadata, pruning window smaller and larger than the "
                "sampling window) are validated by Trace_Pruner: every remove_height must be outside the pruning "
                "window, inside the sampling window only if sampled and not an edge of stored+pruned, not refused or "
                "in progress according to the daser, and preceded by blockstore.remove of every recorded CID. Spec->impl: every "
                "store configuration over 4 (thorough 5) heights x 4 daser policies x window orderings enumerated by TLC "
                "from Pruner.tla is built for the real pruner and judged the same way.",
        "design_ref": "7 C35",
        "note": "Real clock with headers 100 s apart and window edges 50 s from any header time. The daser is scripted "
                "(the real Daser's side of the handshake, on_want_to_prune, is covered by C33/C34's model and traces).",
        "technique": "TLA+ model + TLC; TLC trace validation (monitor) of the real worker with call-time recording",
    },
}

COMBOS = [(40, 10, 5), (40, 5, 10), (60, 30, 30), (30, 3, 20)]


def run(ck):
    hb = ck.build("h-node")
    for wp in (1, 4):
        ck.tlc_mc("MC_Pruner", ck.cfg_with("MC_Pruner.cfg", {"WPrune": wp, "N": 4 if ck.quick else 5},
                                            name=f"MC_Pruner_{wp}.cfg"), tag=f"mc_{wp}", timeout=3000,
                  required_actions=["ComputeBatch", "RemoveNext", "Tick", "InsertH", "MarkH", "StartSampling"])
    # the decision as separate store calls with the syncer, the daser and the clock in between
    # (PrunerBatch.tla), both window orderings; a design that does not ask the daser must be refuted
    nb = 3 if ck.quick else 4
    for ws, wp in ((3, 1), (2, 3)):
        ck.tlc_mc("PrunerBatch", ck.cfg_with("PrunerBatch.cfg", {"N": nb, "WSamp": ws, "WPrune": wp, "MaxNow": nb + 2},
                                              name=f"PrunerBatch_{wp}.cfg"), tag=f"mc_batch_{wp}", timeout=3000, workers=4,
                  required_actions=["Begin", "Read1", "Read2", "Decide", "RemoveNext", "SyncInsert", "StartSampling",
                                    "FinishSampling", "Tick"])
    ck.tlc_mc("PrunerBatch", ck.cfg_with("PrunerBatch.cfg", {"N": 4, "NoAsk": "TRUE"}, name="PrunerBatch_noask.cfg"),
              tag="mc_batch_noask", timeout=3000, workers=4, expect_violation="SafeRemoval")
    # the composition: real pruner + real daser + syncer designs together (system-level SafeRemoval etc.)
    for ws, wp in ((3, 1), (2, 3)):      # pruning window smaller / larger than the sampling window
        ck.tlc_mc("MC_Node", ck.cfg_with("MC_Node.cfg", {"WSamp": ws, "WPrune": wp, "N": 4 if ck.quick else 5},
                                          name=f"MC_Node_{wp}.cfg"), tag=f"mc_node_{wp}", timeout=3000,
                  required_actions=["ComputeBatch", "RemoveNext", "Schedule", "SampleOk", "FetchNext", "BatchOk"])
    guided_validate(ck, hb)
    runs = 8 if ck.quick else 60
    for i, (n, ks, kp) in enumerate(COMBOS if not ck.quick else COMBOS[:3]):
        trace = f"{ck.work}/trace{i}.ndjson"
        s = ck.harness(hb, ["record", "pruner", "--seed", ck.seed + i, "--out", trace, "--runs", runs, "--n", n,
                            "--wsamp", ks, "--wprune", kp], f"record{i}", timeout=3000)
        p = s["props"]["C35"]
        ck.cov["evaluations"] += p["evaluations"]
        ck.cov["distinct_nontrivial"] += p["distinct_nontrivial"]
        ck.cov["samples"] += p["samples"][:2]
        cfg = ck.cfg_with("Trace_Pruner.cfg", {"WSamp": ks, "WPrune": kp}, name=f"Trace_Pruner_{i}.cfg")

        def on_reject(rej, run_lines, idx, ks=ks, kp=kp):
            ev = rej["event"] if isinstance(rej["event"], dict) else {}
            inv = rej.get("invariant")
            if inv == "SafeRemoval" or ev.get("name") in ("remove", "bsremove"):
                ck.violation({"kind": "unsafe-removal" if inv else "trace-reject", "event": ev.get("name"), "invariant": inv},
                             f"run {run_lines[0][:80]}: removal at event {idx} violates SafeRemoval: {json.dumps(ev)[:200]}",
                             {"trace": run_lines[:idx + 1], "reject": rej, "consts": {"WSamp": ks, "WPrune": kp}})
            else:
                ck.cov["drift"] += 1
                vf.log(f"DRIFT property=C35 event {ev.get('name')} not explained: {json.dumps(ev)[:200]}")

        ck.validate_trace_runs("Trace_Pruner", cfg, trace, on_reject, reset_name="init")
    ck.cov["rule"] = ("one evaluation = one recorded pruner run on a random store; non-trivial = run with >= 3 removals, "
                      ">= 1 granted and >= 1 refused want_to_prune")


def guided_validate(ck, hb):
    """spec -> impl: every small configuration of Pruner.tla's store x daser policy (enumerated by TLC, which also
    runs the design to its fixpoint) is built for the real pruner; the recorded run is judged by Trace_Pruner."""
    n = 4 if ck.quick else 5
    for gi, (ks, kp) in enumerate([(3, 2), (2, 3)] if ck.quick else [(3, 2), (2, 3), (4, 1), (2, 2)]):
        gcfg = ck.cfg_with("Gen_Pruner.cfg", {"N": n, "WSamp": ks, "WPrune": kp}, name=f"Gen_Pruner_{gi}.cfg")
        cases, _ = ck.tlc_gen("Gen_Pruner", gcfg, f"configs{gi}.ndjson", tag=f"gen_pruner{gi}", timeout=2400)
        trace = f"{ck.work}/trace_guided{gi}.ndjson"
        s = ck.harness(hb, ["record", "pruner", "--cases", cases, "--out", trace, "--n", n, "--wsamp", ks, "--wprune", kp],
                       f"replay_guided{gi}", timeout=3000)
        p = s["props"]["C35"]
        ck.cov["evaluations"] += p["evaluations"]
        ck.cov["distinct_nontrivial"] += p["distinct_nontrivial"]
        ck.cov["drift"] += p.get("drift", 0)
        ck.cov["samples"] += p["samples"][:1]
        for d in s.get("drift", [])[:5]:
            vf.log(f"DRIFT property=C35 {json.dumps(d)[:300]}")
        consts = {"WSamp": ks, "WPrune": kp}
        cfg = ck.cfg_with("Trace_Pruner.cfg", consts, name=f"Trace_Pruner_g{gi}.cfg")

        def on_reject(rej, run_lines, idx, consts=consts):
            ev = rej["event"] if isinstance(rej["event"], dict) else {}
            inv = rej.get("invariant")
            if inv == "SafeRemoval" or ev.get("name") in ("remove", "bsremove"):
                ck.violation({"kind": "unsafe-removal" if inv else "trace-reject", "event": ev.get("name"), "invariant": inv,
                              "dir": "spec->impl"},
                             f"TLC-enumerated configuration {run_lines[0][:120]}: removal at event {idx} violates SafeRemoval: "
                             f"{json.dumps(ev)[:200]}",
                             {"trace": run_lines[:idx + 1], "reject": rej, "consts": consts})
            else:
                ck.cov["drift"] += 1
                vf.log(f"DRIFT property=C35 event {ev.get('name')} not explained: {json.dumps(ev)[:200]}")

        ck.validate_trace_runs("Trace_Pruner", cfg, trace, on_reject, reset_name="init", max_rejects=12)


def replay(ck):
    d = json.load(open(ck.replay))
    for i, it in enumerate(d["items"]):
        c = it["case"]
        if "trace" not in c:
            continue
        p = f"{ck.work}/replay_trace{i}.ndjson"
        open(p, "w").write("\n".join(c["trace"]) + "\n")
        cfg = ck.cfg_with("Trace_Pruner.cfg", c.get("consts", {}), name=f"rt{i}.cfg")
        ok, rej = ck.tlc_trace("Trace_Pruner", cfg, p, tag=f"rt{i}")
        if not ok:
            ck.violation({"kind": "unsafe-removal"}, json.dumps(rej)[:300], {"trace": c["trace"], "reject": rej})
    ck.cov["evaluations"] = len(d["items"])
    ck.cov["distinct_nontrivial"] = len(d["items"])
