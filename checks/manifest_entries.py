"""Per-property MANIFEST text (bin/mkmanifest turns this into MANIFEST.json)."""

ENGINES = [
    {"name": "tlc+harness", "path": "/verif/bin/check",
     "kind_free_text": "TLA+ specifications model-checked with TLC; TLC-generated transitions/behaviours replayed "
                       "into the Rust code and recorded implementation traces validated by TLC trace specs",
     "serves_properties": []},
]

NOT_APPLICABLE = {
    "C16": "byte-level decoder robustness under mutation fuzzing: an explicit-state model has nothing to say beyond "
           "'value or error' and cannot enumerate raw byte inputs (DESIGN.md 8); panics on modelled paths are still "
           "caught by C07, C13, C27-C29",
    "C46": "pure encode/decode fidelity of a dozen types; a TLA+ model would only restate decode(encode(x)) = x "
           "(DESIGN.md 8)",
    "C47": "bech32 checksum arithmetic and string handling; no state or decision structure for a model (DESIGN.md 8)",
}

# Per-property entries live in the check modules (ENTRIES in checks/<x>.py).

# Properties whose checks are finished and claimed in MANIFEST.json (others stay under
# not_applicable as "not built yet" until their builder reports done and the check was run here).
CLAIMED = ["C22", "C23", "C09", "C10", "C39", "C40", "C41", "C42", "C01", "C02", "C03", "C04", "C05", "C06", "C07", "C08", "C43", "C44", "C45", "C11", "C12", "C13", "C14", "C15", "C17", "C18", "C19", "C20", "C21", "C24", "C25", "C26", "C27", "C28", "C29", "C30", "C31", "C32", "C33", "C34", "C35", "C36", "C37", "C38"]
