"""Per-property MANIFEST text (bin/mkmanifest turns this into MANIFEST.json)."""

ENGINES = [
    {"name": "tlc+harness", "path": "/verif/bin/check",
     "kind_free_text": "TLA+ specifications model-checked with TLC; TLC-generated transitions/behaviours replayed "
                       "into the Rust code and recorded implementation traces validated by TLC trace specs",
     "serves_properties": []},
]

NOT_APPLICABLE = {
    "C16": "byte-level decoder robustness under mutation fuzzing: an explicit-state model has nothing to say beyond "
           "'value or error' and cannot enumerate raw byte inputs (DESIGN.md 8); panics on modelled paths are still "
           "caught by C07, C13, C27-C29",
    "C46": "pure encode/decode fidelity of a dozen types; a TLA+ model would only restate decode(encode(x)) = x "
           "(DESIGN.md 8)",
    "C47": "bech32 checksum arithmetic and string handling; no state or decision structure for a model (DESIGN.md 8)",
}

ENTRIES = {
    "C17": {
        "text": "TLC enumerates every set over 1..N (N=6 quick, 9 thorough) with every operation and argument of "
                "spec/BlockRanges.tla; each generated transition is replayed on the real BlockRanges under three "
                "embeddings (identity, top of u64) comparing result and canonical representation; random histories "
                "of the real type at bases 0, 2^32, 2^63 and u64::MAX-200 are validated event by event by "
                "Trace_BlockRanges. Exhaustive in the small scope, sampled beyond it.",
        "design_ref": "7 C17",
        "note": "Trusts TLC and the harness' embedding arithmetic; left_of/right_of are not exercised with argument 0 "
                "(not a height). Partition is judged by the balanced-partition relation, not a fixed choice.",
        "technique": "TLA+ spec + TLC exhaustive transition table replayed into Rust; TLC trace validation of recorded histories",
    },
    "C18": {
        "text": "The decision table Admit/AdmitFlags of spec/Ranges.tla is evaluated by TLC for every stored set over "
                "1..N and every candidate range over 0..N+1 (including invalid ones) and compared exactly with "
                "check_insertion_constraints under three embeddings; TLC also checks the merge lemma AdmitLemma; "
                "recorded random calls near range boundaries at large bases are validated by the trace spec.",
        "design_ref": "7 C18",
        "note": "Error variants are not compared (the property speaks of admitted / not admitted and the two flags).",
        "technique": "TLA+ decision table enumerated by TLC, replayed into Rust; trace validation",
    },
}
