"""C45 — verified balances are backed by a proof chain to the header's app hash.

spec/ProofChain.tla   symbolic ICS-23: an existence proof is (key, value, recomputed root, tree format); two worlds
                      (honest bank store in the honest multistore; a forged pair) whose parts the node may mix.
                      Algorithmic layer = the loop of ProofChain::verify_membership as get_verified_balance_impl calls it;
                      property layer = Linked(value, app hash): the account key really maps to the value in the state the
                      header commits to.  Sound: reported as verified => Linked.
  MC    TLC evaluates Sound and Complete (honest answers verify) over all 78 216 enumerated answers (0..3 ops out of 16
        honest / relabelled / rewritten / flipped / mistyped ops, 4 returned values, 2 app hashes), for the design the
        property asks for; a second run with AsIsEmptyValue = TRUE reproduces the recorded finding in the model.
  ->B   Gen_ProofChain prints every answer with the demanded verdict; h-grpc builds real IAVL-style and simple-merkle
        stores, real ICS-23 existence proofs, tampers with the real bytes, serves them from the fake node and calls the
        public get_verified_balance.
"""
import json

import vf

PROPS = ["C45"]

ENTRIES = {
    "C45": {
        "text": "spec/ProofChain.tla models an ABCI answer as a returned value plus a chain of proof ops over symbolic "
                "ICS-23 existence proofs (key, value, recomputed root, tree format) drawn from an honest world (bank store "
                "inside the multistore committed by the header's app hash) and a forged one; it mirrors the loop of "
                "ProofChain::verify_membership and states the property as `reported as verified => the account's bank key "
                "maps to the returned value in the state committed by the app hash`. TLC checks this over all 78 216 "
                "combinations of 0..3 ops (honest, other account's entry, relabelled / rewritten keys, rewritten values, "
                "flipped proof nodes, operations off the ProofSpec that re-slice committed leaf bytes (same root, never-stored value), swapped / missing / extra ops, wrong or unknown proof type, forged-world proofs), 4 "
                "returned values (honest, other account's, forged, empty), 2 app hashes and 2 echoed response keys (the requested one, another account's), and emits each with the verdict "
                "the property demands. The harness builds, per case, random real stores (IAVL-style bank tree with 2..11 "
                "records, simple-merkle multistore with up to 16 stores), real ICS-23 leaf/inner ops in the iavl_spec and "
                "tendermint_spec formats, applies the tampering to the real bytes, serves the answer through an in-process "
                "fake gRPC node and calls the public GrpcClient::get_verified_balance with a header carrying the chosen "
                "app hash; an answer that must not verify but is reported as a verified balance is a violation.",
        "design_ref": "7 C45",
        "note": "Every answer is judged twice: through the public get_verified_balance (reported as verified?) and through "
                "ProofChain::verify_membership itself (hook celestia_grpc::verif, cfg(eigerco_lumina_verif)); the second is "
                "needed for proofs whose operations leave the ProofSpec and re-slice committed bytes: the values they can "
                "'prove' are binary, so the client fails to parse them as an amount after verification and never reports them. "
                "Collision freedom of SHA-256 and the ics23 crate's hashing are the trusted base (the model treats roots as "
                "injective). Only existence proofs are enumerated (no batch / compressed / non-existence proofs). Rejection "
                "of an answer that is in fact backed by the app hash (e.g. honest proof with an extra op) is allowed; an "
                "honest answer that is rejected is drift, and a run in which no honest answer verifies is a vacuity error. "
                "Known finding: an empty returned value is reported as verified balance 0 without any proof.",
        "technique": "TLA+ spec with symbolic cryptography; TLC-enumerated answers concretised with real ICS-23 proofs and "
                     "replayed through a fake gRPC node into the real client",
    },
}


def classify(v):
    return v.get("class", {})


def _replay(ck, hb, cases, tag):
    s = ck.harness(hb, ["replay", "proofchain", cases, "--seed", ck.seed, "--worlds", 1 if ck.quick else 4], tag)
    ck.absorb(s, classify)
    return s


def run(ck):
    hb = ck.build("h-grpc")
    # 1. the design the property asks for satisfies it on every enumerated answer
    cfg = ck.cfg_with("MC_ProofChain.cfg", {"AsIsEmptyValue": "FALSE"})
    r = ck.tlc_mc("MC_ProofChain", cfg, tag="mc")
    if r["distinct_states"] < 70000:
        raise vf.ToolError("vacuity: MC_ProofChain enumerated too few answers")
    # the code as it is: the recorded finding must reproduce in the model
    cfg2 = ck.cfg_with("MC_ProofChain.cfg", {"AsIsEmptyValue": "TRUE"}, name="MC_ProofChain_asis.cfg")
    ck.tlc_mc("MC_ProofChain", cfg2, tag="mc_asis", expect_violation="SoundInv")
    # 2. spec -> impl
    gen_cfg = ck.cfg_with("Gen_ProofChain.cfg", {})
    cases, n = ck.tlc_gen("Gen_ProofChain", gen_cfg, "cases.ndjson", count_stats=False)
    s = _replay(ck, hb, cases, "replay")
    ex = s.get("extra", {})
    if ex.get("honest_accepted_by_verify_membership", 0) == 0:
        raise vf.ToolError("vacuity: no honest chain was accepted by ProofChain::verify_membership (hook)")
    if ex.get("honest_accepted", 0) == 0:
        raise vf.ToolError("vacuity: no honest answer was reported as verified (proof construction or client broken)")
    if ex.get("queries_for_the_right_key", 0) != s["props"]["C45"]["evaluations"]:
        ck.violation({"kind": "query"}, "the client did not query store/bank/key for the account's balance key with prove=true",
                     {"extra": ex})
    ck.cov["exhaustive"] = True
    ck.cov["rule"] = ("one case = one enumerated answer (ops recipe x returned value x app hash) concretised with a random "
                      "world; non-trivial = distinct answer with at least one proof op that the property demands to be "
                      "refused.")
    ck.assumptions += ["SHA-256 collision freedom; the ics23 crate's verify_membership is trusted as the hash recomputation",
                       "only existence proofs (ics23 Exist) are enumerated"]


def replay(ck):
    hb = ck.build("h-grpc")
    d = json.load(open(ck.replay))
    cases = f"{ck.work}/replay_cases.ndjson"
    with open(cases, "w") as f:
        for it in d["items"]:
            f.write(json.dumps(it["case"]["case"]) + "\n")
    _replay(ck, hb, cases, "replay")
