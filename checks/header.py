"""C01, C02, C03 -- header validation / chain verification / commit thresholds.

spec/HeaderVerify.tla   symbolic model (perfect hashes, signature = [key, msg]); property layer
                        (*Verdict) and algorithm layer (Alg*).
spec/HvCommit.tla       C03 cases  (MC_/Gen_HvCommit)
spec/HvValidate.tla     C01 cases  (MC_/Gen_HvValidate)
spec/HvChain.tla        C02 cases  (MC_/Gen_HvChain)
MC:   TLC exhaustive over the case space; invariants state the property on the algorithm layer.
->B:  every generated case carries the verdict the property demands (MustAccept / MustReject /
      Either); h-header concretises it with real ed25519 keys and real tendermint / celestia types,
      runs the real function and compares (real Ok => not MustReject; MustAccept => real Ok; a
      panic is always a violation). The algorithm layer's prediction is compared as drift.
<-B:  none (pure functions).
"""
import glob
import hashlib
import json
import os
import shutil
import subprocess

import vf

PROPS = ["C01", "C02", "C03"]

ENTRIES = {
    "C01": {
        "text": "spec/HvValidate.tla builds a symbolic extended header (block hash = header record, validators_hash = "
                "validator sequence, data_hash = DAH record, signature = [key, vote message]) for every configuration "
                "of 1..4 validators (thorough 1..5) with sorted powers from {1,2,3}, every role assignment {commit, nil, "
                "absent} holding more than 2/3, app versions 1..7 and several square widths, and applies every "
                "single-field mutation family of the statement (16 header fields with and without re-binding the block "
                "hash, DAH row / column roots, validator key / power, commit block-id hash / parts / height / round, "
                "per-entry signature / timestamp / address, plus the entry flag). TLC checks that an ideal validator "
                "accepts the honest header and rejects every listed mutation, and that the model of the Rust "
                "algorithm is never stricter and is laxer only outside the light algorithm's reach; the as-is "
                "deviation (AlgBindsAll) is re-derived on each run. Every case is rebuilt with real ed25519 keys, real "
                "hashes and real (dummy-data) squares and run through validate() and decode_and_validate(encode()).",
        "design_ref": "7 C01",
        "note": "Mutations of absent entries, of validator address / proposer priority inside the set (not covered by "
                "the validator-set hash, not named by the property) and multi-field forgeries other than re-binding "
                "the block hash are not generated. Known findings: entries after quorum / nil votes / entry addresses "
                "are not bound by light verification.",
        "technique": "symbolic TLA+ model checked by TLC; TLC-generated (configuration, mutation) cases with spec-decided "
                     "verdicts replayed into Rust with real keys and hashes",
    },
    "C02": {
        "text": "spec/HvChain.tla models headers as [id, chain, height, time, validators, next validators, parent, commit "
                "kinds] with the id as perfect hash. Pair cases: a trusted header with 1..3 validators (thorough 1..4, "
                "powers {1,2,3}) against an untrusted one whose validator set is any non-empty subset of the trusted keys "
                "plus a stranger, every assignment of absent / nil / valid / forged commit entries (the exact 1/3 "
                "boundary), height offsets -1, 0, +1, +2, +3, same / other chain id, five time classes (before, equal, "
                "after, 7 s and 13 s ahead of the real clock), right / wrong parent, right / wrong next validators. "
                "Range cases: every list of up to 3 headers (thorough 4) over a pool made of an honest chain with a "
                "validator rotation (the surviving validator holding exactly 1/3 or 2/3), forks from every height, "
                "headers signed by an attacker's own set, with a non-increasing time or another chain id, from two "
                "trusted heads. The spec derives MustReject from the statement's only-if clauses and MustAccept when all "
                "hold; TLC checks the model of the Rust code against it; every case is rebuilt with real keys, hashes "
                "and times relative to the real clock and run through verify, verify_adjacent, verify_range, "
                "verify_adjacent_range and VerifiedExtendedHeaders::try_from.",
        "design_ref": "7 C02",
        "note": "The clock-drift bound is only probed 3 s on either side of 10 s (real clock). Untrusted headers are "
                "internally consistent (validators_hash matches the set); verify* does not re-validate by design.",
        "technique": "symbolic TLA+ model checked by TLC; TLC-generated pair and range cases with spec-decided verdicts "
                     "replayed into Rust with real keys, hashes and clock-relative times",
    },
    "C03": {
        "text": "spec/HeaderVerify.tla models commits symbolically (signature = [key, vote message], "
                "verification = equality). TLC enumerates validator sets of 1..3 members (thorough 1..5) with "
                "powers from {1,2,3} (exact 1/3 and 2/3 boundaries), every assignment of absent / nil / valid / "
                "forged to the entries, single forged-signature variants (other validator's key, other block, "
                "chain, height, round, timestamp, garbage, missing, replaced address), wrong height / chain "
                "parameter, short and long commits, and for trusting verification every sequence of entries "
                "owned by trusted validators or strangers including duplicated addresses; sets of 8..10 members "
                "are drawn at random by TLC. The spec computes the signing power as a set (nobody counted "
                "twice) and the verdict the property demands; TLC checks the model of the Rust algorithm "
                "against it; every case is replayed with real ed25519 signatures (powers as is and scaled to "
                "the maximal total) into verify_commit_light / verify_commit_light_trusting.",
        "design_ref": "7 C03",
        "note": "Exhaustive only in the small scope; hashing and ed25519 are trusted. The light-verification "
                "antecedent of exactness also requires each entry to carry its validator's address. "
                "ValidatorSetExt is private to celestia-types and is reached through a cfg(eigerco_lumina_verif) "
                "re-export.",
        "technique": "symbolic TLA+ model checked by TLC; TLC-generated cases with spec-decided verdicts replayed "
                     "into Rust with real keys",
    },
}


def classify(v):
    return v.get("class", {})


def _dev_cache():
    """Development aid for the mutation self-tests (VERIF_HEADER_CACHE=1): the generated cases depend
    only on the specification, so they are reused and the model-checking step is skipped. Never set
    in a registered run."""
    return os.environ.get("VERIF_HEADER_CACHE") == "1"


def _build(ck):
    """h-header with VerifiedExtendedHeaders::try_from (feature `node`, needs lumina-node to compile);
    if lumina-node does not compile, fall back to the celestia-types-only build and report the gap."""
    try:
        return ck.build("h-header")
    except vf.ToolError:
        vf.log("[build] retrying h-header without feature `node` (lumina-node did not build)")
        r = subprocess.run(["cargo", "build", "--offline", "-p", "h-header", "--no-default-features"], cwd=vf.HARNESS,
                           stdout=subprocess.PIPE, stderr=subprocess.STDOUT, text=True)
        if r.returncode != 0:
            vf.log(r.stdout[-4000:])
            raise vf.ToolError("cargo build -p h-header --no-default-features failed")
        ck.cov["coverage_gaps"].append("h-header built without feature `node` (lumina-node did not compile)")
        tdir = os.environ.get("CARGO_TARGET_DIR") or os.path.join(vf.HARNESS, "target")
        return os.path.join(tdir, "debug", "h-header")


def _mc(ck, module, cfg, **kw):
    if _dev_cache():
        vf.log(f"[dev-cache] skipping model checking of {module}")
        return None
    return ck.tlc_mc(module, cfg, **kw)


def _gen(ck, module, cfg, out_name, tag):
    if not _dev_cache():
        return ck.tlc_gen(module, cfg, out_name, tag=tag, count_stats=False)
    h = hashlib.sha1()
    for f in sorted(glob.glob(os.path.join(vf.SPEC, "H*.tla")) + glob.glob(os.path.join(vf.SPEC, "Gen_H*.tla")) + [cfg]):
        h.update(open(f, "rb").read())
    cdir = os.path.join(vf.VERIF, "work", "header-cache")
    os.makedirs(cdir, exist_ok=True)
    cached = os.path.join(cdir, f"{module}-{h.hexdigest()}.ndjson")
    out = os.path.join(ck.work, out_name)
    if os.path.exists(cached):
        shutil.copy(cached, out)
        vf.log(f"[dev-cache] reusing generated cases {cached}")
        return out, sum(1 for _ in open(out))
    r = ck.tlc_gen(module, cfg, out_name, tag=tag, count_stats=False)
    shutil.copy(r[0], cached)
    return r


# --------------------------------------------------------------------------------------- C03
def _c03_runs(ck):
    allf = '{"light_base", "light_fancy", "light_mod", "trust_base", "trust_mod", "trust_fancy", "light_random", "trust_random"}'
    if ck.quick:
        return [("a", {"MinN": 1, "MaxN": 3, "MaxL": 2, "Palette": "{1, 2, 3}", "Fams": allf,
                       "RMin": 8, "RMax": 10, "Reps": 40}),
                ("b", {"MinN": 3, "MaxN": 3, "MaxL": 3, "Palette": "{1, 2}", "Fams": '{"trust_base"}',
                       "RMin": 8, "RMax": 8, "Reps": 1})]
    return [
        ("a", {"MinN": 1, "MaxN": 4, "MaxL": 3, "Palette": "{1, 2, 3}", "Fams": allf,
               "RMin": 6, "RMax": 10, "Reps": 400}),
        ("c", {"MinN": 5, "MaxN": 5, "MaxL": 2, "Palette": "{1, 2}", "Fams": '{"light_base"}',
               "RMin": 8, "RMax": 8, "Reps": 1}),
        ("b", {"MinN": 2, "MaxN": 3, "MaxL": 4, "Palette": "{1, 2, 3}", "Fams": '{"trust_base"}',
               "RMin": 8, "RMax": 8, "Reps": 1}),
    ]


def run_c03(ck):
    hb = _build(ck)
    for tag, consts in _c03_runs(ck):
        mc_cfg = ck.cfg_with("MC_HvCommit.cfg", consts, name=f"MC_HvCommit_{tag}.cfg")
        req = []
        if tag == "a":
            req = ["DecideLightBase", "DecideTrustBase","DecideLightFancy", "DecideLightMod", "DecideTrustMod", "DecideTrustFancy",
                    "DecideLightRandom", "DecideTrustRandom"]
        _mc(ck, "MC_HvCommit", mc_cfg, tag=f"mc_{tag}", required_actions=req)
        gen_cfg = ck.cfg_with("Gen_HvCommit.cfg", consts, name=f"Gen_HvCommit_{tag}.cfg")
        cases, _ = _gen(ck, "Gen_HvCommit", gen_cfg, f"cases_{tag}.ndjson", f"gen_{tag}")
        s = ck.harness(hb, ["replay", "commit", cases, "--seed", ck.seed], f"replay_{tag}")
        ck.absorb(s, classify)
    ck.cov["exhaustive"] = True
    ck.cov["rule"] = ("every case TLC generates (set size x powers x entry kinds x presentation) replayed at two "
                      "power scales; non-trivial = distinct (op, set, kinds, mod, scale) with >= 2 validators, at "
                      "least one valid commit entry and at least one other entry")
    ck.assumptions += ["ed25519 unforgeable, SHA-256 collision free (symbolic crypto)",
                       "validator sets are built in the order the spec gives (Set fields are public); decoding "
                       "would sort them",
                       "powers beyond the palette are reached by a common scale factor up to MAX_TOTAL_VOTING_POWER"]


# --------------------------------------------------------------------------------------- C01
VW_QUICK = "{10002, 20004, 30008, 40002, 50016, 60004, 70008}"
VW_THOROUGH = "{10002, 10256, 20004, 30008, 30064, 40002, 50016, 50256, 60004, 60512, 61024, 70008, 70128}"


def run_c01(ck):
    hb = _build(ck)
    consts = ({"MaxNStruct": 3, "MaxNSig": 4, "Palette": "{1, 2, 3}", "VW": VW_QUICK} if ck.quick else
              {"MaxNStruct": 3, "MaxNSig": 5, "Palette": "{1, 2, 3}", "VW": VW_THOROUGH})
    mc_cfg = ck.cfg_with("MC_HvValidate.cfg", consts)
    _mc(ck, "MC_HvValidate", mc_cfg, required_actions=[
        "DecideHonest", "DecideHdr", "DecideHdrRebind", "DecideDah", "DecideVals", "DecideCommit", "DecideSig",
        "DecideFlag"])
    # as-is deviation: the light algorithm does not bind every commit entry (known findings); the
    # counterexample is expected, its disappearance is reported
    asis_cfg = ck.cfg_with("MC_HvValidate_asis.cfg", consts)
    _mc(ck, "MC_HvValidate", asis_cfg, tag="mc_asis", workers=1, expect_violation="AlgBindsAll")
    gen_cfg = ck.cfg_with("Gen_HvValidate.cfg", consts)
    cases, _ = _gen(ck, "Gen_HvValidate", gen_cfg, "cases.ndjson", "gen")
    s = ck.harness(hb, ["replay", "validate", cases, "--seed", ck.seed], "replay")
    ck.absorb(s, classify)
    ck.cov["exhaustive"] = True
    ck.cov["rule"] = ("every (honest configuration, single-field mutation) TLC generates: configurations = sorted power "
                      "sequences x roles {commit, nil, absent} with > 2/3 committing x (app version, width); mutations = "
                      "each header field (with and without re-binding the block hash), DAH roots, validator key / power, "
                      "commit block id / height / round, and per non-absent entry signature / timestamp / address / flag; "
                      "each replayed through validate() and decode_and_validate(encode()); non-trivial = distinct "
                      "(configuration, mutation) with >= 2 validators and a mutation")
    ck.assumptions += ["ed25519 unforgeable, SHA-256 collision free (symbolic crypto)",
                       "the named mutation is applied to the concrete header by the harness; the harness checks that the "
                       "concrete value changed exactly when the symbolic one did",
                       "squares wider than 32 use synthetic DAH roots (no erasure coding)"]


# --------------------------------------------------------------------------------------- C02
def _c02_runs(ck):
    allg = '{"pair_adj", "pair_skip", "pair_dup", "pair_basic", "range", "range_empty"}'
    rng = '{"range", "range_empty"}'
    if ck.quick:
        return [("a", {"MaxM": 3, "MaxMAdj": 2, "Palette": "{1, 2, 3}", "NH": 4, "MaxLen": 3, "Rot": 1, "Grps": allg}),
                ("b", {"MaxM": 1, "MaxMAdj": 1, "Palette": "{1}", "NH": 4, "MaxLen": 3, "Rot": 2, "Grps": rng})]
    return [("a", {"MaxM": 4, "MaxMAdj": 3, "Palette": "{1, 2, 3}", "NH": 5, "MaxLen": 3, "Rot": 1, "Grps": allg}),
            ("b", {"MaxM": 1, "MaxMAdj": 1, "Palette": "{1}", "NH": 5, "MaxLen": 3, "Rot": 2, "Grps": rng}),
            ("c", {"MaxM": 1, "MaxMAdj": 1, "Palette": "{1}", "NH": 4, "MaxLen": 4, "Rot": 2, "Grps": rng})]


def run_c02(ck):
    hb = _build(ck)
    for tag, consts in _c02_runs(ck):
        mc_cfg = ck.cfg_with("MC_HvChain.cfg", consts, name=f"MC_HvChain_{tag}.cfg")
        req = ["DecideRange", "DecideRangeEmpty"]
        if tag == "a":
            req += ["DecidePairAdjacent", "DecidePairSkipping", "DecidePairDup", "DecidePairBasic"]
        _mc(ck, "MC_HvChain", mc_cfg, tag=f"mc_{tag}", required_actions=req)
        gen_cfg = ck.cfg_with("Gen_HvChain.cfg", consts, name=f"Gen_HvChain_{tag}.cfg")
        cases, _ = _gen(ck, "Gen_HvChain", gen_cfg, f"cases_{tag}.ndjson", f"gen_{tag}")
        s = ck.harness(hb, ["replay", "chain", cases, "--seed", ck.seed], f"replay_{tag}")
        ck.absorb(s, classify)
        ex = s.get("extra", {})
        if "try_from_observations" not in ex:
            ck.cov["coverage_gaps"].append("h-header built without feature `node`: VerifiedExtendedHeaders::try_from not observed")
    ck.cov["exhaustive"] = True
    ck.cov["rule"] = ("pairs: every (trusted set, untrusted set overlap, commit entry kinds, height offset, chain id, time "
                      "class, parent, next-validators) combination of the three pair families, each through verify and "
                      "verify_adjacent; ranges: every list up to MaxLen over the pool (honest chain with a validator "
                      "rotation, forks from every height, attacker-set / stale-time / other-chain headers) from two trusted "
                      "heads, each through verify_range, verify_adjacent_range and VerifiedExtendedHeaders::try_from; "
                      "non-trivial = distinct pair with >= 2 trusted validators, or list of >= 2 headers mixing branches "
                      "or fully accepted")
    ck.assumptions += ["ed25519 unforgeable, SHA-256 collision free (symbolic crypto)",
                       "header times are laid out relative to the real clock with a 3 s margin around the 10 s drift bound",
                       "headers handed to verify* are internally consistent (validators_hash = hash of the set) as the "
                       "functions' documentation requires"]


RUNNERS = {"C01": run_c01, "C02": run_c02, "C03": run_c03}
MODELS = {"C01": "validate", "C02": "chain", "C03": "commit"}


def run(ck):
    RUNNERS[ck.prop](ck)


def replay(ck):
    hb = _build(ck)
    d = json.load(open(ck.replay))
    cases = f"{ck.work}/replay_cases.ndjson"
    with open(cases, "w") as f:
        for it in d["items"]:
            f.write(json.dumps(it["case"]["case"]) + "\n")
    s = ck.harness(hb, ["replay", MODELS[ck.prop], cases, "--seed", d.get("seed", ck.seed)], "replay")
    ck.absorb(s, classify)
