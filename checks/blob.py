"""C11 (blob share encoding) and C12 (blob commitments).

spec/Blob.tla      layout function of sparse shares for (data length, signer): number of shares and per
                   share <<start, version, sequence length, signer, data offset, data bytes, padding>>;
                   TLC checks RoundTrip / Minimal / SignerShift for every length and emits the table and
                   the streams (blobs interleaved with reserved-namespace shares) with the expected
                   reconstruct_all result.
spec/Commitment.tla ADR-013 SubtreeWidth and merkle-mountain-range partition; TLC checks the algebra and
                   emits the partition per share count; the harness recomputes the commitment from the
                   partition with own sha2 NMT hashing + tendermint RFC-6962 root, independent of commitment.rs.
"""
import json
import vf

PROPS = ["C11", "C12"]

ENTRIES = {
    "C11": {
        "text": "spec/Blob.tla defines the sparse-share layout as a function of (data length, signer present): share "
                "count, and per share start flag, share version, sequence length, signer presence, data slice and zero "
                "padding. TLC evaluates it for every length 1..4096 x signer and checks that reconstruct o split is "
                "the identity on byte positions, that the count is minimal and that the signer costs exactly 20 bytes "
                "of the first share; it also enumerates every stream of <= 4 items over 6 boundary blob kinds and 5 "
                "reserved-namespace share kinds (1..3 blobs), and every reserved share kind (incl. parity) placed in every gap "
                "INSIDE the share run of 2-, 3- and 5-share blobs (one gap or all gaps, with and without neighbouring "
                "blobs), with the expected reconstruct_all result. Every case is "
                "executed with real random data/namespaces/signers/app versions on Blob::new, to_shares, shares_len, "
                "reconstruct and reconstruct_all.",
        "design_ref": "7 C11",
        "note": "Violations are raised only for what the statement says (round trip identity, reconstruct_all order, "
                "shares_len = number of shares produced); a difference between the real share bytes and the model's "
                "layout that keeps those is reported as drift. Namespace-padding shares of a user namespace between "
                "blobs are not part of the statement and not generated. Empty blobs are excluded by the statement.",
        "technique": "TLA+ layout function evaluated exhaustively by TLC, table replayed into Rust",
    },
    "C12": {
        "text": "spec/Commitment.tla defines SubtreeWidth(n, threshold) and the merkle-mountain-range partition of ADR-013; "
                "TLC checks for every share count that the sizes are powers of two <= the width, non-increasing, sum to "
                "n, that only sizes below the width are unique, and that the width is the least power of two >= "
                "ceil(n/64) capped by the minimal square size, and emits the partition. The harness computes the "
                "commitment from that partition with its own share splitter, its own NMT leaf/inner hashing (sha2) and the "
                "tendermint RFC-6962 root, for real blobs of exactly that many shares (both share versions, all allowed app "
                "versions), compares with Commitment::from_blob / from_shares / Blob::new, and checks Blob::validate "
                "accepts the untouched blob and rejects tampered data, namespace, signer, share version and commitment.",
        "design_ref": "7 C12",
        "note": "Trusted base: SHA-256 (sha2 crate), the NMT node format (min ns | max ns | digest) and "
                "tendermint::merkle::simple_hash_from_byte_vectors used by the independent recomputation. Quick tier covers 1..600 shares (every count) plus the boundary counts of every power of "
                "two width up to 5000; thorough covers every count 1..5000. The subtree threshold is 64 for every app "
                "version in the tree; other thresholds are exercised in the model only.",
        "technique": "TLA+ partition function checked and enumerated by TLC; independent recomputation in the harness",
    },
}


def classify(v):
    return v.get("class", {})


def run(ck):
    hb = ck.build("h-blob")
    if ck.prop == "C11":
        maxlen = 4096
        sl = 3 if ck.quick else 4
        consts = {"MaxLen": maxlen, "StreamLen": sl}
        ck.tlc_mc("MC_Blob", ck.cfg_with("MC_Blob.cfg", consts), workers=1)
        cases, _ = ck.tlc_gen("Gen_Blob", ck.cfg_with("Gen_Blob.cfg", consts), "blob.ndjson", count_stats=False)
        s = ck.harness(hb, ["replay", "blob", cases, "--seed", ck.seed], "blob")
        ck.absorb(s, classify)
        if not ck.quick:
            for extra in (1, 2):
                s = ck.harness(hb, ["replay", "blob", cases, "--seed", ck.seed + 1000 * extra], f"blob_seed{extra}")
                ck.absorb(s, classify)
        ck.cov["exhaustive"] = True
        ck.cov["rule"] = ("every (length 1..4096, signer) and every stream enumerated by TLC is executed; non-trivial = "
                          "distinct (length, signer) layout case, and distinct stream containing at least one "
                          "reserved-namespace share, distinct (neighbours, blob kind, reserved kind, gap) inside case")
        ck.assumptions += ["random data / namespace / signer / app version per case from VERIF_SEED"]
    else:
        run_c12(ck, hb)


def run_c12(ck, hb):
    nmax = 5000
    consts = {"NMax": nmax, "Thresholds": "{64}" if ck.quick else "{1, 2, 7, 64, 100}", "Dense": 600 if ck.quick else nmax}
    ck.tlc_mc("MC_Commitment", ck.cfg_with("MC_Commitment.cfg", consts), workers=1)
    cases, _ = ck.tlc_gen("Gen_Commitment", ck.cfg_with("Gen_Commitment.cfg", dict(consts, Thresholds="{64}")),
                          "commitment.ndjson", count_stats=False)
    s = ck.harness(hb, ["replay", "commitment", cases, "--seed", ck.seed], "commitment")
    ck.absorb(s, classify)
    ck.cov["exhaustive"] = True
    ck.cov["rule"] = ("every share count emitted by TLC (quick: 1..600 and +-2 around every multiple of 64*width "
                      "boundary / power of two up to 5000; thorough: every count 1..5000) is executed with a real blob "
                      "of that many shares; non-trivial = distinct (share count, share version); each also runs the spec's 7 "
                      "tamperings (2 random ones above 600 shares) through Blob::validate")
    ck.assumptions += ["SHA-256 and the NMT node format (min ns | max ns | sha256) are the trusted base of the "
                       "independent recomputation"]


def replay(ck):
    hb = ck.build("h-blob")
    d = json.load(open(ck.replay))
    p = f"{ck.work}/replay_cases.ndjson"
    with open(p, "w") as f:
        for it in d["items"]:
            v = it["case"]
            f.write(json.dumps(v.get("case", v)) + "\n")
    model = "blob" if ck.prop == "C11" else "commitment"
    s = ck.harness(hb, ["replay", model, p, "--seed", d.get("seed", ck.seed)], "replay")
    ck.absorb(s, classify)
