"""C09 (an EDS fetched over shrex matches the header's DAH).

spec/ShrexEds.tla: a payload is a sequence of symbolic shares (the share at row-major position t of
the block's original data square A, of another block's square B, an all-zero share, or one of these
with one byte altered) plus trailing bytes that do not fill a share; the DAH is an injective function
of the ODS share sequence.  K is the real ODS width, so the dimension checks of the decoder see the
real share counts.  The property layer (Demand) says: accept - and return the header's square - iff
the payload is exactly the original data square the header commits to (and the decoder is told the
header's app version; a foreign app version leaves the verdict open but never the returned square);
everything else is rejected, never a panic.  The algorithmic layer (Code) is the design of the
decoder: the checks of decode_and_verify / from_ods / new in the order of the code.
  MC:   TLC exhaustive for K = 1, 2, 4 (8, 16): Code meets Demand on every enumerated payload, only
        the original is accepted, the honest payload is accepted; a decoder without the DAH
        comparison (Dev = "nodah") must produce a counterexample (sensitivity of the model).
  ->B:  Gen_ShrexEds prints every case (mutation descriptor, header, app classes, demanded verdict,
        predicted verdict and stage); h-shrex builds real squares with pairwise distinct shares,
        encodes the payload the way a shrex server does (the codec's own encoder), applies the
        mutation to the real bytes, runs the real decode_and_verify through the hook and compares;
        an accepted square is compared share by share with the header's square, its DAH recomputed.
Stateless function: there is no impl->spec trace direction.
"""
import json
import vf

PROPS = ["C09"]

ENTRIES = {
    "C09": {
        "text": "spec/ShrexEds.tla models the shrex EDS response payload as a sequence of symbolic shares of real ODS "
                "width K and decides for every enumerated payload the verdict the statement demands: the honest payload "
                "under the header's app version must be accepted and the returned square must be the header's square; "
                "truncation at every share boundary (also +1 byte and -1 byte), appended shares/bytes (up to the next "
                "square sizes), crafted oversize payloads (w^2, w^2+1, w^2+w, (w+1)^2 shares whose row starts carry the minimum "
                "namespaces of the header's row roots), shares replaced by the tail-padding share (one, all, with a mutated "
                "byte), the genuine empty block (its header, its ODS, mutated ODS, and other one-share blocks answered "
                "with padding), swaps, duplicates, replaced shares, rotation, shares of another block, all-zero shares, "
                "single-byte flips in the namespace / namespace version / info byte / sequence length / data / last "
                "byte, headers of other blocks (same width, half, double) and headers whose DAH has a column root / row "
                "root replaced (by another block's, by one of the other axis) or swapped must be rejected; foreign app versions "
                "leave the verdict open but an accepted square must still be the header's. TLC checks the decoder "
                "design against this on K=1,2,4 (thorough 8,16) and generates the cases for K=1..16 (thorough "
                "32,64,128), which h-shrex replays on the real decode_and_verify with real squares (pairwise distinct "
                "shares, real Reed-Solomon extension and DAH). A panic or a returned square other than the header's is "
                "a violation in every case.",
        "design_ref": "7 C09",
        "note": "Trusts collision-freeness of the hashes and determinism of the erasure code (the DAH is an injective "
                "function of the ODS). Index-taking mutations are applied at 10 probe positions (corners, row "
                "boundaries, middle), truncations at every share boundary. ODS widths above 128 (where the app "
                "version limits the width) are covered by the model and by C08's shape table, not concretely here. "
                "Reject stage predictions are drift only.",
        "technique": "TLA+ spec (property layer + decoder design) checked by TLC; TLC-generated cases replayed on the real decoder",
    },
}



def classify(v):
    return v.get("class", {})


def run(ck):
    hb = ck.build("h-shrex")
    mc_ks = (1, 2, 4) if ck.quick else (1, 2, 4, 8, 16)
    gen_groups = [(1, 2, 4, 8, 16, 32)] if ck.quick else [(1, 2, 4, 8, 16, 32), (64,), (128,)]
    gen_ks = [k for g in gen_groups for k in g]
    tset = lambda ks: "{" + ", ".join(map(str, ks)) + "}"
    mc = ck.cfg_with("MC_ShrexEds.cfg", {"Ks": tset(mc_ks)})
    ck.tlc_mc("MC_ShrexEds", mc, required_actions=["Pick"], workers=4)
    # sensitivity: a decoder that skips the DAH comparison must violate the model's invariants
    dev = ck.cfg_with("MC_ShrexEds.cfg", {"Ks": "{2}", "Dev": '"nodah"'}, name="MC_ShrexEds_nodah.cfg")
    r = ck.tlc_mc("MC_ShrexEds", dev, tag="mc_nodah", expect_violation="CodeMeetsDemand", workers=1)
    if not r.get("expected_violation_reproduced"):
        raise vf.ToolError("model insensitive: dropping the DAH comparison does not violate CodeMeetsDemand")
    dev = ck.cfg_with("MC_ShrexEds.cfg", {"Ks": "{2}", "Dev": '"rowsonly"'}, name="MC_ShrexEds_rowsonly.cfg")
    r = ck.tlc_mc("MC_ShrexEds", dev, tag="mc_rowsonly", expect_violation="CodeMeetsDemand", workers=1)
    if not r.get("expected_violation_reproduced"):
        raise vf.ToolError("model insensitive: comparing only the row roots does not violate CodeMeetsDemand")
    dev = ck.cfg_with("MC_ShrexEds.cfg", {"Ks": "{1}", "Dev": '"emptyshort"'}, name="MC_ShrexEds_emptyshort.cfg")
    r = ck.tlc_mc("MC_ShrexEds", dev, tag="mc_emptyshort", expect_violation="CodeMeetsDemand", workers=1)
    if not r.get("expected_violation_reproduced"):
        raise vf.ToolError("model insensitive: an empty-block shortcut keyed on the namespace does not violate CodeMeetsDemand")
    cases = []
    for i, g in enumerate(gen_groups):
        gen = ck.cfg_with("Gen_ShrexEds.cfg", {"Ks": tset(g)}, name=f"Gen_ShrexEds_{i}.cfg")
        p, _ = ck.tlc_gen("Gen_ShrexEds", gen, f"cases_{i}.ndjson", tag=f"gen_{i}", count_stats=False)
        cases.append(p)
    allc = f"{ck.work}/cases.ndjson"
    with open(allc, "w") as f:
        for p in cases:
            f.write(open(p).read())
    s = ck.harness(hb, ["replay", "shrexeds", allc, "--seed", ck.seed], "replay")
    ck.absorb(s, classify)
    ex = s.get("extra", {})
    if not ck.violations and not ck.known_hits:  # (a violating tree may well lack an outcome class)
        if not ex.get("accepted"):
            raise vf.ToolError("vacuity: no payload was accepted by the decoder")
        for stage in ("empty", "len", "shape", "dah"):
            if not ex.get("reject_stages", {}).get(stage):
                raise vf.ToolError(f"vacuity: no rejection at stage {stage}")
    ck.cov["exhaustive"] = True
    ck.cov["rule"] = ("every case generated by TLC for the ODS widths " + ",".join(map(str, gen_ks)) + " (payload mutation x "
                      "header x app-version classes), each run under every concrete app version of the class; non-trivial "
                      "= distinct (width, mutation, header, app version) whose demanded verdict is accept or reject "
                      "(not 'either'); a case is one call of the real decode_and_verify")
    ck.assumptions += ["hash functions are collision-free and the erasure code is deterministic (the DAH is an injective "
                       "function of the ODS share sequence)",
                       "generated squares have pairwise distinct shares (checked by the harness)",
                       "app versions are grouped in classes V1-V2 / V3-V5 / V6-V7 (the versions between which square "
                       "validation differs)"]
    ck.cov["coverage_gaps"] += ["ODS width 256/512 (only valid from app V6) not concretised",
                                "index-taking mutations at probe positions only (all positions for widths <= 2)"]


def replay(ck):
    hb = ck.build("h-shrex")
    d = json.load(open(ck.replay))
    cases = f"{ck.work}/replay_cases.ndjson"
    with open(cases, "w") as f:
        for it in d["items"]:
            f.write(json.dumps(it["case"]["case"]) + "\n")
    s = ck.harness(hb, ["replay", "shrexeds", cases, "--seed", ck.seed], "replay")
    ck.absorb(s, classify)
