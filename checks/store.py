"""C19 (stores conform to the abstract model), C20 (failed operations change nothing),
C21 (fork-free hash-linked segments).

spec/Store.tla is the abstract store (the property says the stores conform to *one abstract
model*: this is it).  MC_Store: exhaustive small scope (honest chain, fork, headers advertising an
already used hash, foreign validator set; every batch of length <= 2 and linked batches of 3)
with invariants SetsInv, SegmentsLinked and the action property FailedUnchanged.
<-B (main): seeded histories (inserts of honest/fork/duplicate-hash/unverifiable/shuffled/holed
batches placed at admissible and inadmissible positions, removals, sampling marks, metadata
updates) run on InMemoryStore and RedbStore; after *every* operation the complete observable
projection (all range queries, head, get_by_height / has_at / metadata for every height,
get_by_hash / has for every hash ever seen) is logged; Trace_Store drives the same actions and
requires result kind and projection to match, and evaluates SegmentsLinked / SetsInv on every
state.  The two backends must also return identical result kinds.
Concurrency: pairs of inserts are issued from two threads at the same instant (same batch twice, overlapping
batches, the halves that close a gap, an honest batch and an adjacent fork batch); a "par" event is accepted
only if ONE of the two sequential orders of Store.tla's insert explains both results and the store afterwards.
The same for any two operations (insert / remove_height / mark_as_sampled / update_sampling_metadata on the same
heights: the syncer, the pruner and the sampler share the store) as "par2" events; the two threads leave a spinning
start line within nanoseconds of each other and burn random head starts, so the runs scan the relative timings.
"""
import json
import vf

PROPS = ["C19", "C20", "C21"]

ENTRIES = {
    "C19": {
        "text": "spec/Store.tla is the abstract store model; TLC checks it exhaustively in a small scope; seeded "
                "histories run on InMemoryStore and RedbStore log result kind and the complete query projection "
                "after every operation, and Trace_Store (TLC) accepts a history only if every event is the model's "
                "action with an allowed result kind and an identical projection; result kinds must be identical "
                "across the two backends. Pairs of inserts issued concurrently from two threads must be explained by one "
                "of their two sequential orders; the same for any two operations on the same heights (insert, remove_height, "
                "mark_as_sampled, update_sampling_metadata), several thousand pairs per run.",
        "design_ref": "7 C19, A.2",
        "note": "For a failing insert any error kind that applies to the batch is accepted (the statement says 'the "
                "same error kinds', not a precedence among simultaneous errors); cross-backend equality of kinds is "
                "required. Histories are sampled (seeded), the model check is exhaustive only in the small scope.",
        "technique": "TLA+ abstract store + TLC; TLC trace validation of recorded store histories (both backends)",
    },
    "C20": {
        "text": "Store.tla's failing actions leave all state unchanged (action property FailedUnchanged checked by "
                "TLC); in recorded histories every failing operation's full projection must equal the model state, "
                "i.e. the state before the call; duplicate-hash headers are placed at first/middle/last batch "
                "positions on admissible placements and corrected batches are re-inserted by the driver. For two "
                "concurrent inserts the refused one must have left no trace in any sequential explanation.",
        "design_ref": "7 C20",
        "note": "A panic of the store after a failed operation is recorded as an observation and reported.",
        "technique": "TLA+ action property + TLC trace validation of failing operations with full-state projection",
    },
    "C21": {
        "text": "SegmentsLinked (adjacent stored headers verify, hash index injective and consistent) is an invariant "
                "of Store.tla checked exhaustively in the small scope and evaluated by TLC on every state of every "
                "validated implementation trace (the trace's projection is read back from the real store), including the "
                "states reached by two concurrent inserts of adjacent batches (honest + fork).",
        "design_ref": "7 C21",
        "note": "Header verification is abstracted to (height, chain id, time, validators hash, parent hash) "
                "equalities extracted from the real headers; signatures are covered by C01-C03.",
        "technique": "TLA+ invariant by TLC + trace validation with read-back projection",
    },
}

RES = {1: "ok", 2: "NotFound", 3: "Verification", 4: "Constraints", 5: "Neighbors", 6: "HashExists", 9: "other"}


def run(ck):
    hb = ck.build("h-node")
    # 1. the abstract model, exhaustively
    if ck.quick:
        mc_cfg = ck.cfg_with("MC_Store.cfg", {"N": 3, "K": 2})
    else:
        mc_cfg = ck.cfg_with("MC_Store.cfg", {"N": 4, "K": 3})
    ck.tlc_mc("MC_Store", mc_cfg, required_actions=["Insert", "RemoveHeight", "MarkSampled", "UpdateMeta"],
              timeout=3000)
    # 2. impl -> spec
    trace = f"{ck.work}/trace.ndjson"
    runs, ops, ln = (3, 250, 40) if ck.quick else (8, 500, 120)
    args = ["record", "store", "--seed", ck.seed, "--out", trace, "--runs", runs, "--ops", ops, "--len", ln,
            "--stress", 400 if ck.quick else 4000]
    if not ck.quick:
        args += ["--redb-file", ck.work]
    s = ck.harness(hb, args, "record", timeout=3000)
    p = s["props"][ck.prop]
    ck.cov["evaluations"] += p["evaluations"]
    ck.cov["distinct_nontrivial"] += p["distinct_nontrivial"]
    ck.cov["samples"] += p["samples"][:3]
    for d in s["extra"].get("backend_result_disagreements", []):
        if ck.prop == "C19":
            ck.violation({"kind": "backend-disagreement", "mem": RES.get(d["mem"]), "redb": RES.get(d["redb"])},
                         f"in-memory and redb stores returned different result kinds: {d}", d)
    for d in s["extra"].get("backend_metadata_disagreements", []):
        if ck.prop == "C19":
            ck.violation({"kind": "backend-disagreement", "what": "sampling-metadata"},
                         f"in-memory and redb stores return different sampling metadata after the same history: {json.dumps(d)[:300]}", d)
    if s["extra"].get("concurrent_insert_pairs", 0) < 5:
        raise vf.ToolError("vacuity: fewer than 5 concurrent insert pairs were executed")
    for line in open(trace):
        if '"name":"panic"' in line:
            ev = json.loads(line)
            ck.violation({"kind": "panic", "op": ev.get("op")}, f"store panicked: {ev.get('why')}", ev)

    def on_reject(rej, run_lines, idx):
        ev = rej["event"] if isinstance(rej["event"], dict) else {}
        backend = json.loads(run_lines[0]).get("backend")
        failing = ev.get("res", 1) != 1
        inv = rej.get("invariant")
        # attribution: an invariant failure is C21 (SegmentsLinked) / C19 (SetsInv); a failing op whose
        # projection changed is C20; everything else is a C19 model mismatch
        linked = True
        if ev.get("name") == "insert":
            # is the batch hash-linked?  (descriptors are in the run's "hdr" events)
            desc = {}
            for ln in run_lines:
                if '"name":"hdr"' in ln:
                    d = json.loads(ln)["d"]
                    desc[d["id"]] = d
            b = [desc.get(i) for i in ev.get("b", [])]
            for x, y in zip(b, b[1:]):
                if not (x and y and y["h"] == x["h"] + 1 and y["cid"] == x["cid"] and y["t"] > x["t"]
                        and y["vs"] == x["nvs"] and y["parent"] == x["tag"]):
                    linked = False
        def adj(x, y):
            return bool(x and y and y["h"] == x["h"] + 1 and y["cid"] == x["cid"] and y["t"] > x["t"]
                        and y["vs"] == x["nvs"] and y["parent"] == x["tag"])
        if ev.get("name") == "insert" and ev.get("res") == 1 and linked and ev.get("b"):
            # does the accepted batch link to the neighbours that were stored before it?
            prev_st = None
            for ln in reversed(run_lines[:idx - 1]):
                if '"st"' in ln:
                    prev_st = json.loads(ln).get("st")
                    break
            if prev_st:
                byh = {h: desc.get(i) for h, i, *_ in prev_st.get("byh", [])}
                first, last = desc.get(ev["b"][0]), desc.get(ev["b"][-1])
                if first and last:
                    lo, hi = first["h"], last["h"]
                    if (lo - 1 in byh and not adj(byh[lo - 1], first)) or (hi + 1 in byh and not adj(last, byh[hi + 1])):
                        linked = False
        if ev.get("name") in ("par", "par2"):
            # two concurrent inserts that no sequential order explains: unlinked neighbours in the store afterwards
            # are C21's, a refused insert that left traces is C20's, anything else C19's
            desc = {}
            for ln in run_lines:
                if '"name":"hdr"' in ln:
                    d = json.loads(ln)["d"]
                    desc[d["id"]] = d
            byh = {h: desc.get(i) for h, i, *_ in (ev.get("st") or {}).get("byh", [])}
            linked = all(adj(byh[h], byh[h + 1]) for h in byh if h + 1 in byh)
            failing = ev.get("ra") != 1 or ev.get("rb") != 1
            ev = dict(ev, res=ev.get("ra") if ev.get("ra") != 1 else ev.get("rb"))
        if inv == "SegmentsLinked" or (ev.get("name") in ("insert", "par", "par2") and not linked and (ev.get("name") != "insert" or ev.get("res") == 1)):
            # a batch that is not hash-linked was accepted: the store now holds unlinked neighbours
            owner = "C21"
        elif failing:
            owner = "C20"
        else:
            owner = "C19"
        cls = {"kind": "trace-reject", "backend": backend, "op": ev.get("name"), "res": RES.get(ev.get("res")),
               "invariant": inv}
        if owner == ck.prop or (ck.prop == "C19" and owner in ("C20", "C21")):
            ck.violation(cls, f"event {idx} of a {backend} history is not a behaviour of Store.tla: "
                              f"{json.dumps(ev)[:400]}", {"trace": run_lines[:idx], "reject": rej})

    tr_cfg = ck.cfg_with("Trace_Store.cfg")
    ck.validate_trace_runs("Trace_Store", tr_cfg, trace, on_reject)
    ck.cov["histories_with_failed_insert_removal_and_reinsertion"] = s["extra"].get(
        "histories_with_failed_insert_removal_and_reinsertion", 0)
    ck.cov["rule"] = ("impl->spec: one evaluation = one store operation with full projection; non-trivial = distinct "
                      "operation events (for C20: failing operations only). MC: all reachable states of MC_Store.")
    ck.assumptions += ["header linkage abstracted to the fields ExtendedHeader::verify compares for adjacent headers",
                       "wait_new_head / wait_height / get_range / identity are not part of the projection"]


def replay(ck):
    d = json.load(open(ck.replay))
    tr_cfg = ck.cfg_with("Trace_Store.cfg")
    for i, it in enumerate(d["items"]):
        c = it["case"]
        if "trace" not in c:
            continue
        p = f"{ck.work}/replay_trace{i}.ndjson"
        open(p, "w").write("\n".join(c["trace"]) + "\n")
        ok, rej = ck.tlc_trace("Trace_Store", tr_cfg, p, tag=f"rt{i}")
        if not ok:
            ck.violation({"kind": "trace-reject"}, json.dumps(rej)[:300], {"trace": c["trace"], "reject": rej})
    ck.cov["evaluations"] = len(d["items"])
    ck.cov["distinct_nontrivial"] = len(d["items"])
