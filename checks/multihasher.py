"""C10 (bitswap accepts Shwap blocks only when they verify against the DAH).

spec/Multihasher.tla: state = the set of heights whose header is stored (heights 1 and 3 carry the same
square, height 2 another one); a block on the wire = (multihash code, CID bytes, container bytes) over
a symbolic 4x4 extended square with pairwise distinct shares.  The property layer (HashDemand) says:
the multihasher yields the hash of the *embedded* identifier iff the identifier decodes as the type the
code selects, the container is well formed, the header at the identifier's height is stored and the
container verifies against that header's DAH; an error otherwise.  ExtractDemand: get_block_container
yields the container bytes iff the block decodes and carries exactly the wanted CID.  The algorithmic
layer (HashCode) is the order of checks of the code with the error class.
  MC:   TLC explores every store state (subsets reachable by new-head insertions) and checks in each,
        over all ~4000 enumerated blocks: design = demand, a hash only for stored heights and unaltered
        containers, honest blocks hashed, monotonicity in the store, and the end-to-end lemma (what passes
        hash and extraction for `want` verifies for `want`).  Deviating designs (no verification; any
        stored header) must produce counterexamples.
  ->B:  Gen_Multihasher prints every (store state, block) with the demanded results; h-shrex builds real
        squares / headers / InMemoryStore / containers / CIDs / protobuf blocks at widths 4..128 (block
        scaling of the abstract coordinates), drives the real ShwapMultihasher::hash and
        get_block_container through the hooks and compares.  A panic is a violation.
The multihasher itself is stateless (the store is only read): no impl->spec trace direction.
"""
import json
import vf

PROPS = ["C10"]

ENTRIES = {
    "C10": {
        "text": "spec/Multihasher.tla decides, for every store state over three heights (two of them with the same "
                "DAH) and every enumerated block, whether ShwapMultihasher::hash must yield the hash of the embedded "
                "identifier or an error: honest sample (row and column proof), row (left and right half) and "
                "row-namespace-data (present and absent namespace) blocks; the same container under every other "
                "identifier of its kind (all positions, one past the end, other heights), under identifiers and codes "
                "of the other kinds; containers with a flipped share byte / proof byte, truncated, empty, garbage, of "
                "another kind or of another block's square; unknown multihash codes; malformed CIDs (garbage, empty, "
                "truncated, other codec, other multihash code, other digest size, height 0) and malformed blocks. "
                "TLC checks the design of the hasher against the statement in every store state and generates the "
                "cases; h-shrex replays each on the real multihasher with a real InMemoryStore and real data at widths "
                "4-32 (thorough 4-128), and each block on get_block_container against the CID the node asked for.",
        "design_ref": "7 C10",
        "note": "Trusts collision-freeness of the hashes (an unaltered container verifies exactly for its own place in "
                "its own square). Error classes (unknown code vs fatal) are drift only; the statement only says "
                "'an error'. Only InMemoryStore is used as header store.",
        "technique": "TLA+ spec (statement + hasher design) checked by TLC over all store states; TLC-generated cases replayed on the real multihasher",
    },
}


def classify(v):
    return v.get("class", {})


def run(ck):
    hb = ck.build("h-shrex")
    mc = ck.cfg_with("MC_Multihasher.cfg", {}, name="MC_Multihasher.cfg")
    ck.tlc_mc("MC_Multihasher", mc, required_actions=["Insert", "Hash"], workers=4)
    for dev in (("noverify",) if ck.quick else ("noverify", "nolookup")):
        cfg = ck.cfg_with("MC_Multihasher.cfg", {"Dev": f'"{dev}"'}, name=f"MC_Multihasher_{dev}.cfg")
        r = ck.tlc_mc("MC_Multihasher", cfg, tag=f"mc_{dev}", expect_violation="CodeMeetsDemand", workers=1)
        if not r.get("expected_violation_reproduced"):
            raise vf.ToolError(f"model insensitive: deviation {dev} does not violate CodeMeetsDemand")
    gen = ck.cfg_with("Gen_Multihasher.cfg", {}, name="Gen_Multihasher.cfg")
    cases, n = ck.tlc_gen("Gen_Multihasher", gen, "cases.ndjson", count_stats=False)
    widths = "4,8,16,32" if ck.quick else "4,8,16,32,64,128"
    args = ["replay", "multihasher", cases, "--seed", ck.seed, "--widths", widths]
    s = ck.harness(hb, args, "replay")
    ck.absorb(s, classify)
    # extra coverage riding on the same cases (node shrex codecs for Sample / Row, node CID helpers); not a
    # claim of this property: reported, never part of the verdict
    for v in s.get("violations", []):
        if str(v.get("property", "")).startswith("x-"):
            vf.log(f"EXTRA-FINDING: {v.get('property')} {v.get('why', '')[:300]}")
    out = s.get("extra", {}).get("outcomes", {})
    if not ck.violations and not ck.known_hits:  # (a violating tree may well lack an outcome class)
        for need in ("hash:ok", "hash:unknown-code", "hash:fatal", "extract:ok", "extract:err"):
            if not out.get(need):
                raise vf.ToolError(f"vacuity: outcome {need} never observed")
    ck.cov["exhaustive"] = True
    ck.cov["rule"] = ("every (store state, block) generated by TLC, replayed at widths " + widths + " under the "
                      + "lowest / highest / random member of each abstract coordinate "
                      "block; non-trivial = distinct (width, scale, store state, block) for hash plus distinct (width, "
                      "scale, block) for get_block_container; a case is one call of the real function")
    ck.assumptions += ["hash functions are collision-free (an unaltered container verifies exactly for its own place in "
                       "its own square)", "generated squares have pairwise distinct shares (checked by the harness)",
                       "the header store is InMemoryStore"]
    ck.cov["coverage_gaps"] += ["namespace-data identifiers for the parity namespace / parity rows are not enumerated"]


def replay(ck):
    hb = ck.build("h-shrex")
    d = json.load(open(ck.replay))
    by = {}
    for it in d["items"]:
        c = it["case"]
        by.setdefault((c.get("width", 4), c.get("scale", "id")), []).append(c["case"])
    for i, ((w, sc), cs) in enumerate(sorted(by.items())):
        cases = f"{ck.work}/replay_cases{i}.ndjson"
        with open(cases, "w") as f:
            for c in cs:
                # get_block_container is only evaluated in store state 0
                f.write(json.dumps(c) + "\n")
        args = ["replay", "multihasher", cases, "--seed", ck.seed, "--widths", w]
        if sc != "id":
            args += ["--scale", sc]
        s = ck.harness(hb, args, f"replay{i}")
        ck.absorb(s, classify)
